// Demonstration for the known finding C17/C19 "zero-coin bank transfers".
// Append to contracts/basset_sei_rewards_dispatcher/src/testing/tests.rs of a scratch copy and run
//   cargo test -p basset-sei-rewards-dispatcher --offline zero_coin_demo
// Each test FAILS on the unchanged tree: DispatchRewards emits a BankMsg::Send whose only coin is 0,
// which the bank module rejects, so the whole UpdateGlobalIndex transaction fails on chain.

fn zero_coin_demo_run(balances: &[Coin], keeper_rate: Decimal) -> Vec<(String, Uint128)> {
    let mut deps = mock_dependencies(balances);
    let msg = InstantiateMsg {
        hub_contract: MOCK_HUB_CONTRACT_ADDR.to_string(),
        bsei_reward_contract: String::from(MOCK_BSEI_REWARD_CONTRACT_ADDR),
        bsei_reward_denom: BTOKEN_REWARD_DENOM.to_string(),
        stsei_reward_denom: STTOKEN_REWARD_DENOM.to_string(),
        krp_keeper_address: String::from(MOCK_KRP_KEEPER_CONTRACT_ADDR),
        krp_keeper_rate: keeper_rate,
        swap_contract: String::from(MOCK_SWAP_CONTRACT_ADDR),
        swap_denoms: vec![],
        oracle_contract: String::from(MOCK_ORACLE_CONTRACT_ADDR),
    };
    instantiate(deps.as_mut(), mock_env(), mock_info("creator", &[]), msg).unwrap();
    let info = mock_info(String::from(MOCK_HUB_CONTRACT_ADDR).as_str(), &[]);
    let res = execute(deps.as_mut(), mock_env(), info, ExecuteMsg::DispatchRewards {}).unwrap();
    let mut zero = vec![];
    for m in res.messages {
        if let cosmwasm_std::CosmosMsg::Bank(cosmwasm_std::BankMsg::Send { to_address, amount }) = m.msg {
            for c in amount {
                if c.amount.is_zero() {
                    zero.push((to_address.clone(), c.amount));
                }
            }
        }
    }
    zero
}

#[test]
fn zero_coin_demo_keeper_rate_zero() {
    // keeper rate 0: keeper transfers of 0 coins in both denoms
    let z = zero_coin_demo_run(&[Coin::new(200, "usei"), Coin::new(300, "kusd")], Decimal::zero());
    assert!(z.is_empty(), "zero-coin transfers emitted: {:?}", z);
}

#[test]
fn zero_coin_demo_keeper_rate_one() {
    // keeper rate 1: the bSei reward share transfer is 0 coins
    let z = zero_coin_demo_run(&[Coin::new(200, "usei"), Coin::new(300, "kusd")], Decimal::one());
    assert!(z.is_empty(), "zero-coin transfers emitted: {:?}", z);
}

#[test]
fn zero_coin_demo_dust_balance() {
    // balance 1 at 5 %: floor(1 * 0.05) = 0 coins to the keeper
    let z = zero_coin_demo_run(&[Coin::new(1, "usei"), Coin::new(1, "kusd")], Decimal::percent(5));
    assert!(z.is_empty(), "zero-coin transfers emitted: {:?}", z);
}
