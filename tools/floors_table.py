#!/usr/bin/env python3
"""print the markdown table of rule ids, distinct instance counts and floors from evidence/*.json (DESIGN 11.2)"""
import json, os, glob
VERIF = os.path.dirname(os.path.dirname(os.path.abspath(__file__)))
print("| prop | rule: obligations / distinct instances / floor |")
print("|------|-----------------------------------------------|")
for f in sorted(glob.glob(os.path.join(VERIF, "evidence", "C*.json"))):
    ev = json.load(open(f))
    ri = ev["coverage"]["rule_instances"]
    cells = ["%s %d/%d/%d" % (k.split(".")[1], v["count"], v.get("distinct", v["count"]), v["floor"]) for k, v in sorted(ri.items())]
    print("| %s | %s |" % (ev["property_id"], ", ".join(cells)))
