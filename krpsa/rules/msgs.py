"""Helpers to take message-construction expressions apart."""
from ..expr import E, simplify, show


def vec_elems(world, e):
    """elements of a Vec expression built by vec![..] / Vec::new(); None if unknown shape"""
    e = world.ident(e)
    if e.op == "call" and e.info == "vec!":
        arr = e.args[0]
        if arr.op == "array":
            return list(arr.args)
        return None
    if e.op == "call" and e.info in ("std::vec::Vec::new", "std::vec::Vec::with_capacity"):
        return []
    if e.op == "call" and e.info in ("cosmwasm_std::coins",):
        return [E("adt", (e.args[1], e.args[0]), ("cosmwasm_std::Coin", "", ("denom", "amount")))]
    if e.op == "phi":
        out = []
        for a in e.args:
            x = vec_elems(world, a)
            if x is None:
                return None
            out.extend(x)
        return out
    return None


def coin_parts(world, sem, c):
    """(amount expr, denom expr) of a Coin-valued expression"""
    c = world.ident(c)
    if c.op == "adt" and c.info[0].endswith("Coin"):
        d = dict(zip(c.info[2], c.args))
        return d.get("amount"), d.get("denom")
    if c.op == "call" and c.info in ("cosmwasm_std::Coin::new", "cosmwasm_std::coin"):
        return c.args[0], c.args[1]
    return sem.field_of(c, "amount"), sem.field_of(c, "denom")


def wasm_execute(world, sem, e):
    """for WasmMsg::Execute{contract_addr,msg,funds}: (target label, payload expr or None, funds expr, contract expr)"""
    if e.op != "adt" or not e.info[0].endswith("WasmMsg") or e.info[1] != "Execute":
        return None
    d = dict(zip(e.info[2], e.args))
    payload = sem.payload(d["msg"])
    return sem.label(d["contract_addr"]), payload, d["funds"], d["contract_addr"]


def is_zero_fact(world, f, resolve, amount_id):
    """does edge fact f establish `amount != 0` for the value whose identity is amount_id?"""
    if f[0] == "truth" and f[2] is False and f[1].op == "call" and f[1].info.endswith("::is_zero"):
        return world.ident(resolve(f[1].args[0])) == amount_id
    if f[0] == "cmp" and f[1] in ("Lt", "Ne"):
        a = world.ident(resolve(f[2]))
        b = world.ident(resolve(f[3]))
        za = is_zero_const(a)
        zb = is_zero_const(b)
        if f[1] == "Lt":
            return za and b == amount_id  # 0 < amount
        return (za and b == amount_id) or (zb and a == amount_id)
    return False


def is_zero_const(e):
    if e.op == "call" and e.info.endswith("::zero"):
        return True
    if e.op == "const" and e.info[0] == "scalar" and e.info[1] == 0:
        return True
    return False


def push_sequences(world, e, limit=64):
    """enumerate the element sequences of a Vec built by Vec::new()/vec![] and push()
    along every alternative (phi); loops are cut"""
    e = world.ident(e, expand_ws=False)
    out = []

    def go(x, depth):
        x = world.ident(x, expand_ws=False)
        if depth > 40:
            return [[]]
        if x.op == "out" and x.info[0].endswith("Vec::push"):
            res = []
            for s in go(x.args[0], depth + 1):
                res.append(s + [x.args[-1]])
            return res
        if x.op == "out" and x.info[0].rsplit("::", 1)[-1] in ("append", "extend", "extend_from_slice"):
            res = []
            # what is appended: a literal list / `literal.into_iter().map(f)` is spelled out; anything else stays one collection-valued item
            arg = world.ident(x.args[-1], expand_ws=False)
            tails = None
            if arg.op == "call" and world.callee_body(arg) is None and isinstance(arg.info, str) and arg.info.rsplit("::", 1)[-1] == "map" and \
                    len(arg.args) == 2 and arg.args[1].op == "closure":
                from ..callgraph import literal_elems
                lit = literal_elems(world, arg.args[0])
                if lit is not None:
                    tails = [[world.apply_closure(arg.args[1], [el]) for el in lit]]
            for s in go(x.args[0], depth + 1):
                if tails is None:
                    res.append(s + [x.args[-1]])
                else:
                    res.extend(s + t for t in tails)
            return res
        if x.op == "phi":
            res = []
            for a in x.args:
                res.extend(go(a, depth + 1))
                if len(res) > limit:
                    break
            return res
        if x.op == "call" and x.info == "std::slice::concat":
            # [a, b, ..].concat(): the concatenation of the parts' sequences
            parts = world.ident(x.args[0], expand_ws=False)
            if parts.op == "call" and parts.info == "vec!" and parts.args[0].op == "array":
                res = [[]]
                for part in parts.args[0].args:
                    res = [s + t for s in res for t in go(part, depth + 1)]
                    if len(res) > limit:
                        break
                return res
            return [[x]]
        if x.op == "call" and world.callee_body(x) is None and x.args and isinstance(x.info, str):
            nm = x.info.rsplit("::", 1)[-1]
            if nm == "collect" and x.info.endswith("Iterator::collect"):
                return go(x.args[0], depth + 1)
            if nm == "chain" and len(x.args) == 2:
                return [s0 + t0 for s0 in go(x.args[0], depth + 1) for t0 in go(x.args[1], depth + 1)][:limit]
            if nm == "map" and len(x.args) == 2 and x.args[1].op == "closure":
                from ..callgraph import literal_elems
                lit = literal_elems(world, x.args[0])
                if lit is not None:
                    return [[world.apply_closure(x.args[1], [el]) for el in lit]]
                return [[x]]
        if x.op == "call" and x.info == "vec!":
            arr = x.args[0]
            return [list(arr.args)] if arr.op == "array" else [[x]]
        if x.op == "call" and x.info in ("std::vec::Vec::new", "std::vec::Vec::with_capacity"):
            return [[]]
        if x.op == "rec":
            return [[]]  # loop-carried prefix: unknown earlier elements
        # a Vec handed back by a workspace helper: the helper's own alternatives
        c = x.args[0] if x.op == "proj" and x.info == "ok" else x
        if c.op == "call" and world.callee_body(c) is not None and depth < 8:
            alts = world._ok_alts(world.expand(c), "ok", 0, False) if x.op == "proj" else [world.expand(c)]
            res = []
            for a in alts:
                if a is c:
                    return [[x]]
                for sq in go(a, depth + 1):
                    if sq not in res:
                        res.append(sq)
            if res:
                return res
        return [[x]]
    return go(e, 0)


RESP_PASS = ("add_attribute", "add_attributes", "add_event", "add_events", "set_data")


def response_sequences(world, x, depth=0):
    """message sequences of a Response-valued expression (alternatives along phi), following the builder chain
    Response::new().add_message(m).add_messages(v).add_submessages(v)...; an unrecognised link yields a one-element sequence [x]"""
    x = world.ident(x, expand_ws=False)
    if depth > 40:
        return [[x]]
    if x.op == "adt" and x.info[0].endswith("::Result") and x.info[1] == "Ok":
        return response_sequences(world, x.args[0], depth + 1)
    if x.op == "phi":
        out = []
        for a in x.args:
            for s in response_sequences(world, a, depth + 1):
                if s not in out:
                    out.append(s)
        return out
    if x.op == "call" and isinstance(x.info, str) and x.info.startswith("cosmwasm_std::Response::"):
        nm = x.info.rsplit("::", 1)[1]
        if nm in ("new", "default"):
            return [[]]
        if nm in RESP_PASS:
            return response_sequences(world, x.args[0], depth + 1)
        if nm in ("add_message", "add_submessage"):
            return [s + [x.args[1]] for s in response_sequences(world, x.args[0], depth + 1)]
        if nm in ("add_messages", "add_submessages"):
            return [s + t for s in response_sequences(world, x.args[0], depth + 1) for t in push_sequences(world, x.args[1])]
    if x.op == "call" and isinstance(x.info, str) and x.info.endswith("Default::default"):
        return [[]]
    return [[x]]


def collection_repr(world, x, depth=0):
    """a representative element expression of a collection built by an iterator chain: for collect(map(src, f)) / map(src, f)
    (possibly behind filters, `?`, extend) the closure's result on the item of src; None if x is not of that shape"""
    from ..iters import mk_item, last, TRANSPARENT, DROPPING
    x = world.ident(x, expand_ws=False)
    while depth < 20:
        depth += 1
        if x.op == "proj":
            x = world.ident(x.args[0], expand_ws=False)
            continue
        if x.op == "call" and world.callee_body(x) is None and x.args:
            nm = last(x.info)
            if nm in ("collect",) or nm in TRANSPARENT or (nm in DROPPING and nm != "filter_map"):
                x = world.ident(x.args[0], expand_ws=False)
                continue
            if nm in ("map", "filter_map", "flat_map") and len(x.args) == 2 and x.args[1].op == "closure":
                return world.ident(world.apply_closure(x.args[1], [mk_item(world, x.args[0])]), expand_ws=False)
        return None
    return None


def through_closure_call(world, x):
    """`build(&payload)?` where `build` is a local closure that wraps its argument into a message: the closure's own (single) Ok / plain
    result with the argument substituted; anything else is returned unchanged"""
    x0 = world.ident(x, expand_ws=False)
    inner = x0.args[0] if x0.op == "proj" and x0.info == "ok" and x0.args else x0
    inner = world.ident(inner, expand_ws=False)
    cb = world.prog.bodies.get(inner.info) if inner.op == "call" and isinstance(inner.info, str) else None
    if inner.op == "call" and isinstance(inner.info, str) and len(inner.args) == 2 and \
            (inner.info.rsplit("::", 1)[-1] in ("call", "call_mut", "call_once") or (cb is not None and cb.kind == "closure")):
        clo = world.ident(inner.args[0], expand_ws=False)
        if clo.op == "closure":
            ta = world.ident(inner.args[1], expand_ws=False)
            args = list(ta.args) if ta.op == "tuple" else [inner.args[1]]
            r = world.apply_closure(clo, args)
            alts = world._ok_alts(r, "ok", 0, False) if x0.op == "proj" else [r]
            if alts and len(alts) == 1:
                return alts[0]
    return x
