"""Obligation bookkeeping, violations, known findings, evidence files."""
import json
import os
import time

VERIF = os.path.dirname(os.path.dirname(os.path.abspath(__file__)))


class Report:
    def __init__(self, prop, tier, seed):
        self.prop = prop
        self.tier = tier
        self.seed = seed
        self.t0 = time.time()
        self.obligations = []  # dict(rule, instance, ok, detail, where)
        self.violations = []   # dict(rule, key, msg, where, witness)
        self.floors = {}       # rule -> min instances
        self.notes = []
        self.explanations = {}
        self.stats = {}
        self.extra = {}

    def rule(self, rid, text, floor):
        self.explanations[rid] = text
        self.floors[rid] = floor

    def ob(self, rule, instance, ok, detail="", where=None, key=None, witness=None, fkey=None):
        """record an obligation; if not ok, a violation with `key` (defaults to rule|instance).
        `fkey` is the refactor-stable name the floor counts (defaults to the instance text): floors count DISTINCT
        fkeys, so that merging or splitting the code sites behind one interface-level instance never trips a floor."""
        self.obligations.append({"rule": rule, "instance": instance, "ok": bool(ok), "detail": detail, "where": where,
                                 "fkey": fkey if fkey is not None else instance})
        if not ok:
            self.violations.append({
                "rule": rule, "key": key or "%s | %s" % (rule, instance),
                "msg": detail, "where": where, "witness": witness, "instance": instance,
            })
        return ok

    def note(self, s):
        self.notes.append(s)

    def finish(self):
        """fail closed on floors: a rule that matched fewer instances than counted by hand"""
        counts = {}
        distinct = {}
        for o in self.obligations:
            counts[o["rule"]] = counts.get(o["rule"], 0) + 1
            distinct.setdefault(o["rule"], set()).add(o["fkey"])
        self.distinct = {r: len(s) for r, s in distinct.items()}
        for rid, fl in self.floors.items():
            n = self.distinct.get(rid, 0)
            if n < fl:
                self.violations.append({
                    "rule": rid, "key": "%s | anchor-lost" % rid,
                    "msg": "anchor-lost: rule %s matched %d distinct instance(s), floor is %d (%s)" % (rid, n, fl, self.explanations.get(rid, "")),
                    "where": None, "witness": None, "instance": "anchor-lost",
                })
        self.counts = counts
        return counts


def load_known():
    p = os.path.join(VERIF, "known_findings.json")
    if not os.path.exists(p):
        return []
    with open(p) as f:
        return json.load(f)["findings"]


def emit(rep, prog, world_stats=None):
    """apply known findings, write evidence + replay files, print lines, return exit code"""
    counts = rep.finish()
    known = [k for k in load_known() if k["property"] == rep.prop and k.get("status") == "known"]
    known_keys = {k["key"]: k for k in known}
    new_viol = []
    known_hit = []
    for v in rep.violations:
        if v["key"] in known_keys:
            known_hit.append((v, known_keys[v["key"]]))
        else:
            new_viol.append(v)
    evdir = os.environ.get("KRP_EVIDENCE_DIR") or os.path.join(VERIF, "evidence")
    vdir = os.path.join(evdir, "violations")
    os.makedirs(vdir, exist_ok=True)
    for fn in os.listdir(vdir):
        if fn.startswith(rep.prop + "-"):
            os.remove(os.path.join(vdir, fn))
    lines = []
    printed_known = set()
    for v, k in known_hit:
        if k["key"] in printed_known:
            continue
        printed_known.add(k["key"])
        lines.append("KNOWN-FINDING: property=%s %s" % (rep.prop, k["what_fails"]))
    for i, v in enumerate(new_viol, 1):
        path = os.path.join(vdir, "%s-%d.json" % (rep.prop, i))
        with open(path, "w") as f:
            json.dump({"property": rep.prop, "rule": v["rule"], "rule_text": rep.explanations.get(v["rule"], ""),
                       "key": v["key"], "message": v["msg"], "where": v["where"], "witness": v["witness"]}, f, indent=1, default=str)
        lines.append("VIOLATION property=%s replay=%s" % (rep.prop, path))
        lines.append("  %s: %s%s" % (v["rule"], v["msg"], " @ %s" % (v["where"],) if v["where"] else ""))
    n_ob = len(rep.obligations)
    n_ok = sum(1 for o in rep.obligations if o["ok"])
    samples = []
    seen_rules = set()
    for o in rep.obligations:
        if o["rule"] not in seen_rules and o["ok"]:
            seen_rules.add(o["rule"])
            samples.append({"rule": o["rule"], "instance": o["instance"], "where": o["where"], "detail": o["detail"][:400]})
    rule_instances = {rid: {"count": counts.get(rid, 0), "distinct": rep.distinct.get(rid, 0), "floor": rep.floors.get(rid, 0), "text": rep.explanations.get(rid, "")}
                      for rid in sorted(set(list(rep.floors) + list(counts)))}
    cov = {
        "explanation": "Static analysis of the type-checked program: rustc MIR of all workspace crates "
                       "(extracted by /verif/driver from /repo's current tree) evaluated by the krpsa rule engine "
                       "(CFG reachability with pass edges, reaching-definition based value provenance, effect tables, "
                       "entry-specialised constant propagation). Rules applied: "
                       + "; ".join("%s: %s" % (k, v) for k, v in sorted(rep.explanations.items())),
        "obligations": n_ob,
        "discharged": n_ok,
        "rule_instances": rule_instances,
        "samples": samples[:12],
        "functions_analysed": prog.counts["bodies"],
        "blocks": prog.counts["blocks"],
        "call_sites": prog.counts["calls"],
        "known_findings": [k["key"] for _, k in known_hit],
        "exhaustive": True,
        "checker_cmd": "./check %s --tier %s" % (rep.prop, rep.tier),
        "trusted_base": [
            "rustc nightly MIR construction and callee resolution",
            "krp-facts extractor and krpsa rule engine (validated by seeded mutants, not verified)",
            "CosmWasm execution semantics: Err/panic reverts all writes and messages of the call",
            "library semantics by name: cosmwasm_std, cw-storage-plus, cosmwasm-storage, cw20-base 0.16.0 (version-pinned)",
        ],
        "notes": rep.notes[:40],
    }
    cov.update(rep.extra)
    ev = {
        "property_id": rep.prop, "tier": rep.tier, "seed": rep.seed, "level": "other",
        "coverage": cov,
        "assumptions": [
            "operating envelope of DESIGN.md section 4",
            "panics and Err returns are failures that revert the transaction (CosmWasm)",
        ],
        "wall_s": round(time.time() - rep.t0, 3),
        "violations": len(new_viol),
    }
    os.makedirs(evdir, exist_ok=True)
    with open(os.path.join(evdir, rep.prop + ".json"), "w") as f:
        json.dump(ev, f, indent=1, default=str)
    for l in lines:
        print(l)
    print("%s: %d obligations, %d discharged, %d violation(s), %d known finding(s) [%s]" % (
        rep.prop, n_ob, n_ok, len(new_viol), len(printed_known), rep.tier))
    return 1 if new_viol else 0
