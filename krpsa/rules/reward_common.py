"""Shared pattern matchers for the bSei reward contract (C14, C15)."""
from ..expr import show
from .common import stored

HOLDERS = "basset_sei_reward::state::HOLDERS"
RSTATE = "basset_sei_reward::state::STATE"
RWCFG = "basset_sei_reward::state::CONFIG"
LEDGER = {HOLDERS: ["balance", "index", "pending_rewards"], RSTATE: ["total_balance", "global_index", "prev_reward_balance"]}


def is_one(e):
    return (e.op == "const" and e.info[0] == "scalar" and e.info[1] == 1) or \
           (e.op == "call" and e.info.endswith("::one"))


def unratio(world, e):
    """Decimal::from_ratio(x, 1) -> x"""
    e = world.ident(e)
    if e.op == "call" and e.info.endswith("Decimal::from_ratio") and len(e.args) == 2 and is_one(world.ident(e.args[1])):
        return world.ident(e.args[0])
    return e


def holder_label(lab, field):
    return lab is not None and lab[0] == "stored" and lab[1] == HOLDERS and tuple(lab[3]) == (field,)


def accrual_roles(world, sem, e):
    """e = accrued reward (global_index - holder.index) x holder.balance in normal form:
    returns (ok, detail, holder key label)"""
    n = world.norm(e)
    if not (n.op == "bin" and n.info == "Mul" and len(n.args) == 2):
        return False, "accrual is not a product: %s" % show(n, 4), None
    a, b = n.args
    for bal, diff in ((a, b), (b, a)):
        bl = sem.label_nd(unratio(world, bal))
        d = world.ident(diff)
        if d.op == "bin" and d.info == "Sub" and holder_label(bl, "balance"):
            g = sem.label(d.args[0])
            i = sem.label_nd(d.args[1])
            if g == stored(RSTATE, "global_index") and holder_label(i, "index"):
                if i[2] != bl[2]:
                    return False, "index of holder %s but balance of holder %s" % (i[2], bl[2]), None
                return True, "(State.global_index - Holder.index) x Holder.balance of one holder record", bl[2]
            return False, "difference operands are %s - %s (expected State.global_index - Holder.index)" % (g, i), None
    return False, "factors are not (holder balance, index difference): %s" % show(n, 5), None


def split_sum(world, sem, e):
    """e = accrued + pending (decimal_summation): returns (accrued expr, pending label)"""
    n = world.norm(e)
    if n.op == "bin" and n.info == "Add" and len(n.args) == 2:
        for acc, pen in ((n.args[0], n.args[1]), (n.args[1], n.args[0])):
            pl = sem.label_nd(pen)
            if holder_label(pl, "pending_rewards"):
                return acc, pl
    return None, None
