"""C11 - pause blocks every state-changing path except the owner's unpause (DESIGN 6, C11)."""
from ..authz import GuardAnalysis
from ..callgraph import explore, storage_effects, message_effects
from ..expr import E, show, walk
from .common import entry, msg_enum, variant_env, stored, where, param_expr

PARAMS = "basset_sei_hub::state::PARAMETERS"
OLDWAIT = "bucket:basset_sei_hub::state::OLD_PREFIX_WAIT_MAP"
NEWWAIT = "bucket:basset_sei_hub::state::NEW_PREFIX_WAIT_MAP"
EXEMPT = {"UpdateParams", "MigrateUnbondWaitList"}


def is_pause_test(sem, x, resolve):
    """x is `Parameters.paused.unwrap_or(false)` of the stored parameters"""
    if x.op == "param":
        # the flag handed to a helper (`rule.check(paused)`): what the caller passed
        x = resolve(x)
    if x.op == "call" and x.info == "std::option::Option::unwrap_or" and len(x.args) == 2:
        lab = sem.label(resolve(x.args[0]))
        d = x.args[1]
        if lab == stored(PARAMS, "paused") and d.op == "const" and d.info[0] == "scalar" and d.info[1] == 0:
            return True
    return False


def pause_pass(sem, want):
    def pf(f, resolve):
        return f[0] == "truth" and f[2] is want and is_pause_test(sem, f[1], resolve)
    return pf


def reads_cell(sem, e, cell, depth=0, seen=None):
    """does expression e (expanding workspace calls) contain a read of `cell`?"""
    w = sem.w
    seen = seen if seen is not None else set()
    hit = []

    def f(x):
        if hit:
            return False
        if x.op == "call":
            so = sem.storage_op(x)
            if so and so[0] == "read" and so[1] == cell:
                hit.append(x)
                return False
            b = w.callee_body(x)
            if b is not None and b.is_fn() and depth < 6 and (b.path, depth) not in seen:
                seen.add((b.path, depth))
                if reads_cell(sem, w.expand(x), cell, depth + 1, seen):
                    hit.append(x)
                    return False
    walk(e, f)
    return bool(hit)


def run(prog, world, sem, rep):
    rep.rule("C11.a", "in hub execute every message variant except the two exemptions reaches a success exit only through the "
             "edge on which Parameters.paused.unwrap_or(false) was observed false", 13)
    rep.rule("C11.b", "exemptions: MigrateUnbondWaitList succeeds only while paused and writes only the two wait-list buckets and "
             "PARAMETERS; UpdateParams writes only PARAMETERS (owner guard: C10); neither emits messages", 5)
    rep.rule("C11.c", "every writer of PARAMETERS outside instantiate that can store paused != Some(true) does so only after the "
             "legacy wait list was read and observed empty (specialised over paused in {None, Some(false), Some(true)})", 4)
    rep.rule("C11.f", "only a migration that found legacy entries can lift the pause: on the MigrateUnbondWaitList path PARAMETERS is written only "
             "after a read of the legacy wait list was observed NOT empty (an empty list makes the migration a no-op for everyone but the owner)", 1)
    rep.rule("C11.e", "no function reachable from the hub query entry point reads Parameters.paused (positive control: execute does)", 2)

    ex = entry(prog, "hub")
    adt_path, adt = msg_enum(prog, ex)
    for v in [x["name"] for x in adt["variants"]]:
        env = variant_env(prog, ex, v)
        if v in EXEMPT:
            continue
        ga = GuardAnalysis(sem, pause_pass(sem, False))
        wit = ga.unguarded(ex, env)
        if wit:
            rep.ob("C11.a", "hub::%s" % v, False, "variant %s can succeed while paused: %s" % (v, " -> ".join("%s:%s %s" % s for s in wit[0])),
                   where(ex), witness=wit[:3])
        else:
            rep.ob("C11.a", "hub::%s" % v, True, "success exits only behind the unpaused edge", where(ex))

    # C11.b
    env = variant_env(prog, ex, "MigrateUnbondWaitList")
    ga = GuardAnalysis(sem, pause_pass(sem, True))
    wit = ga.unguarded(ex, env)
    rep.ob("C11.b", "MigrateUnbondWaitList only while paused", not wit,
           "migration can succeed while not paused: %s" % (wit[:1],) if wit else "success only through the paused edge", where(ex))
    for v, allowed in (("MigrateUnbondWaitList", {OLDWAIT, NEWWAIT, PARAMS}), ("UpdateParams", {PARAMS})):
        env = variant_env(prog, ex, v)
        vis = explore(sem, ex, env)
        bad = []
        for (vv, bb, kind, cell, key, val, e) in storage_effects(sem, vis):
            if kind in ("write", "update", "remove") and cell not in allowed:
                bad.append("%s %s at %s" % (kind, cell, where(vv.body, bb)))
        msgs = ["%s at %s" % (show(e, 2), where(vv.body, bb)) for (vv, bb, i, e) in message_effects(sem, vis)]
        rep.ob("C11.b", "%s write-set" % v, not bad, "writes outside %s: %s" % (sorted(allowed), bad) if bad else "write-set within %s" % sorted(allowed), where(ex))
        rep.ob("C11.b", "%s emits no messages" % v, not msgs, "messages: %s" % msgs if msgs else "no message constructions reachable", where(ex))

    # C11.c
    writers = {}
    for v in [x["name"] for x in adt["variants"]]:
        vis = explore(sem, ex, variant_env(prog, ex, v))
        for (vv, bb, kind, cell, key, val, e) in storage_effects(sem, vis):
            if cell == PARAMS and kind in ("write", "update"):
                writers[(vv.body.path, bb)] = vv.body
    for (path, bb), body in sorted(writers.items()):
        be = world.be(body)
        # the parameter (if any) that is the message's `paused` option
        pl = body.local_by_name("paused")
        cases = [("any", {})]
        if pl is not None and 1 <= pl <= body.arg_count:
            pe = param_expr(body, pl)
            OPT = "std::option::Option"
            cases = [("None", {pe: ("enum", "None", (), OPT)}),
                     ("Some(false)", {pe: ("enum", "Some", (("int", 0),), OPT)}),
                     ("Some(true)", {pe: ("enum", "Some", (("int", 1),), OPT)})]
        for cname, env in cases:
            site = [s for s in sem.storage_sites(be) if s[0] == bb][0]
            _, kind, cell, key, val, e = site
            wv = sem.written_value(kind, cell, val)
            pv = sem.aval(sem.field_of(wv, "paused"), env) if wv is not None else None
            inst = "%s [paused=%s]" % (path, cname)
            if pv and pv[0] == "enum" and pv[1] == "Some" and pv[2] and pv[2][0] == ("int", 1):
                rep.ob("C11.c", inst, True, "stores paused = Some(true): no obligation", where(body, bb), fkey="paused=%s" % cname)
                continue
            removed = set(sem.feasible_removed(be, env))
            pass_edges = set()
            for blk in body.blocks:
                if blk.cleanup or blk.term.kind != "switch" or blk.idx not in be.cfg.live:
                    continue
                for succ, fl in sem.edge_facts(be, blk.idx).items():
                    for f in fl:
                        if f[0] == "truth" and f[2] is True and f[1].op == "call" and f[1].info == "std::vec::Vec::is_empty":
                            if reads_cell(sem, f[1].args[0], OLDWAIT):
                                pass_edges.add((blk.idx, succ))
            reach = be.cfg.reach([0], removed=removed | pass_edges)
            feasible = be.cfg.reach([0], removed=removed)
            if bb not in feasible:
                rep.ob("C11.c", inst, True, "write infeasible in this case", where(body, bb), fkey="paused=%s" % cname)
                continue
            ok = bb not in reach
            rep.ob("C11.c", inst, ok,
                   "PARAMETERS written with paused=%s without having observed the legacy wait list empty (path lines %s)" % (
                       pv, GuardAnalysis.path_lines(body, be.cfg.path(0, bb, removed=removed | pass_edges) or [])) if not ok
                   else "write only after the legacy wait list was observed empty", where(body, bb), fkey="paused=%s" % cname)

    # C11.f
    from ..callgraph import site_guarded
    mvs = explore(sem, ex, variant_env(prog, ex, "MigrateUnbondWaitList"))
    n = 0
    for (vv, bb, kind, cell, key, val, e) in storage_effects(sem, mvs):
        if cell == PARAMS and kind in ("write", "update"):
            n += 1

            def nonempty(f, resolve):
                return f[0] == "truth" and f[2] is False and f[1].op == "call" and f[1].info == "std::vec::Vec::is_empty" and reads_cell(sem, resolve(f[1].args[0]), OLDWAIT)
            g, d = site_guarded(sem, vv, bb, nonempty)
            rep.ob("C11.f", "migration unpauses only after having found legacy entries (%s)" % vv.body.path, g,
                   "the migration path can write PARAMETERS (unpause) although the legacy wait list was empty all along - any sender can then lift an emergency pause: %s" % d
                   if not g else d, where(vv.body, bb), key="C11.f | %s" % vv.body.path)
    if n == 0:
        rep.ob("C11.f", "migration unpause", False, "anchor-lost: the migration path no longer writes PARAMETERS")

    # C11.e
    def paused_reads(root):
        hits = []
        for vv in explore(sem, root):
            for bb in vv.blocks:
                blk = vv.body.blocks[bb]
                places = []
                for s in blk.stmts:
                    if s.rv is not None:
                        if s.rv.place is not None:
                            places.append(s.rv.place)
                        places.extend(o.place for o in s.rv.ops if o.place is not None)
                t = blk.term
                places.extend(a.place for a in t.args if a.place is not None)
                if t.discr is not None and t.discr.place is not None:
                    places.append(t.discr.place)
                for pl in places:
                    for (name, owner, var) in pl.fields():
                        if name == "paused" and owner.endswith("hub::Parameters"):
                            hits.append(where(vv.body, bb))
        return hits
    q = entry(prog, "hub", "query")
    qh = paused_reads(q)
    rep.ob("C11.e", "hub query never reads paused", not qh, "query path reads Parameters.paused at %s" % qh if qh else "no read of Parameters.paused in %s" % q.path, where(q))
    eh = paused_reads(ex)
    rep.ob("C11.e", "positive control: execute reads paused", bool(eh), "scan found %d read(s) in execute" % len(eh), where(ex))
