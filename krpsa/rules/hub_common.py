"""Structural discovery of hub handlers (shared by the hub properties)."""
from ..callgraph import explore, site_guarded, storage_effects
from .common import entry, variant_env, stored, arm_handler

HUBCFG = "basset_sei_hub::state::CONFIG"
PARAMS = "basset_sei_hub::state::PARAMETERS"
STATE = "basset_sei_hub::state::STATE"
BATCH = "basset_sei_hub::state::CURRENT_BATCH"
NEWWAIT = "bucket:basset_sei_hub::state::NEW_PREFIX_WAIT_MAP"
OLDWAIT = "bucket:basset_sei_hub::state::OLD_PREFIX_WAIT_MAP"
HISTORY = "prefixed:basset_sei_hub::state::UNBOND_HISTORY_MAP"
TOKENS = {"bsei": stored(HUBCFG, "bsei_token_contract"), "stsei": stored(HUBCFG, "stsei_token_contract")}


def subtree(visits, root):
    out = []
    for v in visits:
        x = v
        while x is not None:
            if x is root:
                out.append(v)
                break
            x = x.parent[0] if x.parent else None
    return out


def receive_handlers(prog, sem):
    """{(hook variant, token): (visits of Receive, receive visit, handler visit)} discovered from
    the facts that must hold at each delegating call site of the Receive arm"""
    ex = entry(prog, "hub")
    vs = explore(sem, ex, variant_env(prog, ex, "Receive"))
    h = arm_handler(sem, vs)
    out = {}
    for v in vs:
        if v.parent is None or v.parent[0] is not h or v.body.kind == "closure":
            continue
        bb = v.parent[1]
        hooks = []
        for hook in ("Unbond", "Convert"):
            def fh(f, resolve, hook=hook):
                if not (f[0] == "variant" and f[2] == hook):
                    return False
                x = sem.w.ident(resolve(f[1]))
                if x.op == "call" and x.info == "cosmwasm_std::from_json" and x.args:
                    l = sem.label(x.args[0])
                    return l is not None and l[0] == "param" and l[4] and l[4][-1] == "msg"
                return False
            if site_guarded(sem, h, bb, fh)[0]:
                hooks.append(hook)
        toks = []
        for tk, lab in TOKENS.items():
            def ft(f, resolve, lab=lab):
                if f[0] == "cmp" and f[1] == "Eq":
                    ls = (sem.label(resolve(f[2])), sem.label(resolve(f[3])))
                    return ("sender",) in ls and lab in ls
                return False
            if site_guarded(sem, h, bb, ft)[0]:
                toks.append(tk)
        out.setdefault((tuple(hooks), tuple(toks)), []).append(v)
    return vs, h, out
