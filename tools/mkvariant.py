#!/usr/bin/env python3
"""tools/mkvariant.py <variant-or-mutant-id> : materialise a selftest variant/mutant as a scratch copy of /repo (prints the
directory; remove it when done).  For debugging a check against it: KRP_REPO=<dir> KRP_EVIDENCE_DIR=/tmp/ev ./check Cxx"""
import glob, json, os, sys
VERIF = os.path.dirname(os.path.dirname(os.path.abspath(__file__)))
sys.path.insert(0, os.path.join(VERIF, "selftest"))
from run import scratch_copy  # noqa: E402
sid = sys.argv[1]
for f in glob.glob(os.path.join(VERIF, "selftest", "*", "*.json")):
    for s in json.load(open(f)):
        if s["id"] == sid:
            d = scratch_copy(os.environ.get("KRP_REPO", "/repo"))
            if s.get("patch"):
                import subprocess
                subprocess.run(["patch", "-p1", "-s", "-i", os.path.join(VERIF, "selftest", s["patch"])], cwd=d, check=True)
            for e in s.get("edits", []):
                p = os.path.join(d, e["file"])
                t = open(p).read()
                assert e["find"] in t, "precondition text not found in %s" % e["file"]
                open(p, "w").write(t.replace(e["find"], e["replace"], e.get("count", 1)))
            print(d)
            sys.exit(0)
sys.exit("no such id")
