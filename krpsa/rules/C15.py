"""C15 - reward accrual proportional and independent: structural clauses (DESIGN 6, C15)."""
from ..callgraph import explore, storage_effects
from ..expr import show
from ..ledger import ledger_entries
from .common import entry, variant_env, stored, where
from .reward_common import HOLDERS, RSTATE, LEDGER, accrual_roles, split_sum, holder_label


def run(prog, world, sem, rep):
    rep.rule("C15.a", "settle-before-mutate: IncreaseBalance / DecreaseBalance add to pending_rewards the accrual computed from the holder's "
             "*previous* balance and index, set Holder.index := State.global_index and only change the balance by the message amount", 6)
    rep.rule("C15.c", "rewards already accrued stay with their holder: no message removes a holder record (a record may carry settled "
             "pending_rewards), and claim is the only message that lowers pending_rewards", 9)
    rep.rule("C15.b", "every accrual is (State.global_index - Holder.index) x Holder.balance of one and the same holder record; the record is "
             "keyed by the message address (mirroring) resp. info.sender (claim, query)", 4)

    ex = entry(prog, "reward")
    for v, sign in (("IncreaseBalance", 1), ("DecreaseBalance", -1)):
        vs = explore(sem, ex, variant_env(prog, ex, v))
        eff = storage_effects(sem, vs)
        ents = [x for x in ledger_entries(sem, eff, LEDGER) if x["what"][0] != "preserved"]
        by = {(x["cell"], x["field"]): x for x in ents}
        pend = by.get((HOLDERS, "pending_rewards"))
        okp = False
        detail = "pending_rewards: %s" % (pend["what"][:2] if pend else None,)
        hk = None
        if pend is not None and pend["what"][0] == "delta" and pend["what"][1] == 1:
            okp, detail, hk = accrual_roles(world, sem, pend["what"][2])
        rep.ob("C15.a", "reward::%s settles with the previous balance and index" % v, okp, detail, where(ex))
        idx = by.get((HOLDERS, "index"))
        oki = idx is not None and idx["what"][0] == "absolute" and sem.label(idx["what"][1]) == stored(RSTATE, "global_index")
        rep.ob("C15.a", "reward::%s advances the holder index" % v, oki, "index := %s" % (sem.label(idx["what"][1]) if idx and idx["what"][1] is not None else None,), where(ex))
        bal = by.get((HOLDERS, "balance"))
        okb = bal is not None and bal["what"][0] == "delta" and bal["what"][1] == sign
        rep.ob("C15.a", "reward::%s balance delta" % v, okb, "balance: %s" % (bal["what"][:2] if bal else None,), where(ex))
        keys = {str(x["key"]) for x in ents if x["cell"] == HOLDERS}
        kl = [x["key"] for x in ents if x["cell"] == HOLDERS]
        okk = len(keys) == 1 and kl and kl[0] is not None and kl[0][0] == "param" and kl[0][4] == ("address",) and hk == kl[0]
        rep.ob("C15.b", "reward::%s holder record keyed by msg.address" % v, okk, "written keys %s, accrual holder %s" % (sorted(keys), hk), where(ex))

    from .common import msg_enum
    adt_path, adt = msg_enum(prog, ex)
    for vn in [x["name"] for x in adt["variants"]]:
        vv = explore(sem, ex, variant_env(prog, ex, vn))
        eff2 = storage_effects(sem, vv)
        rm = [where(v.body, bb) for (v, bb, kind, cell, key, val, e) in eff2 if cell == HOLDERS and kind == "remove"]
        bad = []
        if rm:
            bad.append("holder record removed at %s" % rm)
        for x in ledger_entries(sem, eff2, {HOLDERS: ["pending_rewards"]}):
            w0 = x["what"]
            if w0[0] == "preserved" or x["kind"] == "remove":
                continue
            if vn == "ClaimRewards":
                continue
            if not (w0[0] == "delta" and w0[1] == 1):
                bad.append("pending_rewards %s by %s" % (w0[0], vn))
        rep.ob("C15.c", "reward::%s keeps accrued rewards with the holder" % vn, not bad, "; ".join(bad) if bad else "no removal; pending_rewards only grows", where(ex), key="C15.c | reward::%s" % vn)

    # claim and the AccruedRewards query use the same accrual on the caller's / queried record
    vs = explore(sem, ex, variant_env(prog, ex, "ClaimRewards"))
    eff = storage_effects(sem, vs)
    prev = [x for x in ledger_entries(sem, eff, LEDGER) if x["cell"] == RSTATE and x["field"] == "prev_reward_balance" and x["what"][0] == "delta"]
    ok = False
    detail = "anchor-lost: claim amount not found"
    if prev:
        paid = world.norm(prev[0]["what"][2])
        total = paid.args[0] if paid.op == "bin" and paid.info == "Mul" else None
        acc, pl = split_sum(world, sem, total) if total is not None else (None, None)
        if acc is not None:
            ok, detail, hk = accrual_roles(world, sem, acc)
            ok = ok and hk == ("sender",) and pl[2] == hk
    rep.ob("C15.b", "claim accrues on the caller's own record", ok, detail, where(ex))
    q = entry(prog, "reward", "query")
    qb = None
    for vv in explore(sem, q, variant_env(prog, q, "AccruedRewards")):
        if vv.parent is not None and vv.parent[0].parent is None and vv.body.kind != "closure":
            qb = vv
    ok = False
    detail = "anchor-lost: AccruedRewards handler not found"
    if qb is not None:
        ret = qb.resolve(world.ret_expr(qb.body))
        alts = world._ok_alts(ret, "ok", 0, True)
        for a in alts:
            a = world.ident(a)
            if a.op == "adt" and a.args:
                n = world.norm(a.args[0])
                total = n.args[0] if n.op == "bin" and n.info == "Mul" else None
                acc, pl = split_sum(world, sem, total) if total is not None else (None, None)
                if acc is not None:
                    ok, detail, hk = accrual_roles(world, sem, acc)
                    ok = ok and hk is not None and hk[0] == "param" and hk[4] == ("address",) and pl[2] == hk
    rep.ob("C15.b", "AccruedRewards query uses the same accrual on the queried record", ok, detail, where(q))
