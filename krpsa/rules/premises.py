"""Shared premises (DESIGN 11.7).

Several properties rest on the same structural facts: the static argument for "no operation dilutes holders" (C04) needs the rate
formula, the price of every mint and the conservation of the booked total, which are anchored in C02 / C03.  A property's check therefore
also evaluates the rules of sibling properties that are premises of its own argument, under their original rule id; when such a premise
fails, the property can no longer be established from the source and its check reports it.  Each line names the clause of the borrowing
property the premise supports.  Only rules whose failure breaks the borrowing clause itself are listed (no blanket imports).
"""
import importlib

from ..report import Report

PREMISES = {
    "C01": [
        ("C07", ["C07.a", "C07.b"], "the total paid falls short of what arrived by dust only: every token unbonded into a batch is recorded as a claim of its sender "
                                     "(a request dropped at recording time is undelegated for nobody)"),
    ],
    "C15": [
        ("C16", ["C16.a", "C16.g"], "a holder accrues on its balance: every bSei balance change reaches the reward contract (same accounts, signs, amounts; on every "
                                     "success path), else the old owner keeps accruing on tokens it no longer holds"),
    ],
    "C16": [
        ("C18", ["C18.a"], "the reward contract's total equals the bSei total supply: every bSei variant changes the supply by exactly the signed sum of its balance "
                            "deltas, which is what the mirror messages carry"),
    ],
    "C17": [
        ("C20", ["C20.a"], "the fee is bounded: the keeper rate stored by instantiate / UpdateConfig never exceeds 1 (above 1 the split underflows and dispatch fails)"),
    ],
    "C02": [
        ("C06", ["C06.a", "C06.b"], "booked stake <= delegated stake after a slashing check: the pools are only ever lowered to the delegated sum, and the two new pools "
                                     "add up to exactly that sum (the stSei pool is the complement of the re-scaled bSei pool, no remainder lost)"),
    ],
    "C03": [
        ("C06", ["C06.f"], "mints / redeems are priced at the rate consistent with the totals observable at that moment: the handlers work on the recomputed State "
                            "returned by the resync, not on the stored copy"),
        ("C02", ["C02.c"], "a batch of unbond requests is undelegated for floor(requests x rate) per token: the amount handed to the planner is the sum of exactly the two "
                            "floored products taken off the pools"),
        ("C08", ["C08.g"], "the rate's denominator counts the not-yet-undelegated requests: a roll-over must not leave the closed batch's requests pending"),
    ],
    "C04": [
        ("C06", ["C06.d"], "only slashing lowers a rate: the delegated sum the books are compared with counts every delegation of the hub in the staking denom (a "
                            "delegation left out of the sum is booked as a loss)"),
        ("C08", ["C08.g"], "requests of a closed batch left pending stay in the rate's denominator and are undelegated twice: the rate drops without slashing"),
        ("C03", ["C03.a", "C03.b", "C03.c"], "a rate can only be shown not to fall if it is pool / (supply + requests) of the same token, recomputed over the supply as "
                                               "changed by exactly this operation's mints and burns, and if no more than floor(value / rate) tokens are minted for a value"),
        ("C02", ["C02.a", "C02.c", "C02.f", "C02.g"], "the pool of a token must grow by the whole payment (bond), shrink by exactly the undelegated products (unbond) and a "
                                               "conversion must credit the destination pool with the value it takes from the source pool - otherwise one rate drops"),
    ],
    "C05": [
        ("C06", ["C06.f"], "no fee at or above the threshold: the rate the fee gate compares with er_threshold is that of the recomputed State the resync returns (not of "
                            "the stored copy, whose rate may be stale after a direct burn)"),
    ],
    "C06": [
        ("C02", ["C02.e"], "the next check inside bond / unbond / convert books the loss: every pricing handler runs the resync and writes STATE only after it"),
        ("C01", ["C01.f", "C01.g", "C01.h"], "last clause of C06: loss on stake slashed while unbonding is spread over the batches released together (one group for the "
                                               "sum and the release), per token type, measured on the coins that actually arrived"),
    ],
    "C07": [
        ("C08", ["C08.g"], "for every batch the recorded claims equal the total that is undelegated once: the roll-over's reset of both request totals is what the handler saves"),
        ("C01", ["C01.a", "C01.b"], "claims are removed only by their owner's successful withdrawal of a released batch: the payable sum and the removal list cover "
                                     "the same released entries of info.sender"),
    ],
    "C08": [
        ("C01", ["C01.a", "C01.f"], "no coins are paid for a batch before it is released, and release requires the unbonding period to have elapsed (same loop conditions "
                                     "for summing and releasing)"),
        ("C02", ["C02.c"], "the amount undelegated for a batch equals its requests valued at the recorded rates: the planner is asked for exactly the two products"),
    ],
    "C09": [
        ("C01", ["C01.e", "C01.h", "C01.i"], "WithdrawUnbonded succeeds whenever the claim is worth a base unit: rates are processed first, every claim of the caller is "
                                               "examined, and the only refusal is a zero payable amount / a negative balance difference"),
        ("C08", ["C08.a", "C08.f"], "the request is undelegated by the first unbond after the epoch period (roll-over test), and no stale write-back undoes the release "
                                     "cursor or the batch id (a lost update strands the claim)"),
    ],
    "C13": [
        ("C02", ["C02.b", "C02.f"], "the whole stake is moved / subsequent bonds go to registered validators only: the planners place the entire amount and the targets "
                                     "come from the registry's answer"),
    ],
    "C14": [
        ("C15", ["C15.a", "C15.b"], "sum of claimable <= recorded balance needs every accrual to be (global - holder index) x the holder's previous balance, settled "
                                     "before the balance changes"),
        ("C16", ["C16.d", "C16.f"], "the index divides by State.total_balance, which must move with every holder balance (else the shares do not add up to the pool)"),
    ],
    "C19": [
        ("C03", ["C03.a"], "the stSei rate rises by exactly re-bonded amount over (stSei supply + pending requests): the rate formula, including its zero guards"),
        ("C17", ["C17.b", "C17.c", "C17.d", "C17.j"], "the rewards are split between the pools minus the keeper fee, the whole remainder is forwarded and the bSei holders' index "
                                               "is updated after their share arrived"),
        ("C04", ["C04.a"], "the stSei share is re-delegated raising the stSei rate while minting nothing"),
        ("C02", ["C02.a"], "BondRewards books and delegates exactly the coins it receives"),
        ("C08", ["C08.f"], "the re-bond does not write back a State loaded before the slashing check (lost update of the pools within the delivery transaction)"),
    ],
}


def run_premises(prop, prog, world, sem, rep):
    for (src, rules, why) in PREMISES.get(prop, []):
        sub = Report(src, rep.tier, rep.seed)
        mod = importlib.import_module("krpsa.rules.%s" % src)
        try:
            mod.run(prog, world, sem, sub)
        except Exception as ex:
            rep.ob("%s.engine" % prop, "premise evaluation (%s)" % src, False, "rule engine raised %r" % (ex,), key="%s.engine | premise %s" % (prop, src))
            continue
        for rid in rules:
            if rid not in sub.floors:
                rep.ob("%s.engine" % prop, "premise %s" % rid, False, "anchor-lost: premise rule %s no longer exists" % rid, key="%s.engine | premise %s" % (prop, rid))
                continue
            rep.rule(rid, "[premise of %s, anchored in %s: %s] %s" % (prop, src, why, sub.explanations[rid]), sub.floors[rid])
        keep = set(rules)
        for o in sub.obligations:
            if o["rule"] in keep:
                rep.obligations.append(o)
        for v in sub.violations:
            if v["rule"] in keep:
                rep.violations.append(v)
