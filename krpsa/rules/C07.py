"""C07 - every unbonded token is recorded in exactly one batch claim of its sender (DESIGN 6, C07)."""
from ..callgraph import explore, storage_effects, message_effects, call_sites, written_value_in
from ..expr import show, find, arith_args
from ..ledger import classify
from .common import entry, msg_enum, variant_env, stored, where, arm_handler
from .hub_common import (receive_handlers, subtree, HUBCFG, STATE, BATCH, NEWWAIT, OLDWAIT, HISTORY, TOKENS)
from .msgs import wasm_execute

REQ = {"bsei": "requested_bsei_with_fee", "stsei": "requested_stsei"}
WAITF = {"bsei": "bsei_amount", "stsei": "stsei_amount"}
UTYPE = {"bsei": "BSei", "stsei": "StSei"}


def pl(l):
    if l is None:
        return "?"
    if l[0] == "param":
        return "msg." + ".".join(l[4])
    if l[0] == "stored":
        return "%s.%s" % (l[1].split("::")[-1], ".".join(l[3]))
    return str(l[0])


def run(prog, world, sem, rep):
    rep.rule("C07.a", "per unbond handler: the value added to CurrentBatch.requested_X is the amount stored in the sender's wait-list entry; "
             "Burn.amount = Cw20ReceiveMsg.amount; wait-list address = Cw20ReceiveMsg.sender; batch key = CurrentBatch.id as loaded "
             "(before any roll-over)", 10)
    rep.rule("C07.b", "token <-> handler <-> field pairing: the handler reached under sender == Config.X_token_contract burns on that token, "
             "adds to requested_X and (additively, never overwriting) to UnbondWaitEntity.X_amount only", 8)
    rep.rule("C07.c", "the v2 wait-list bucket is written only by: the unbond handlers (store), WithdrawUnbonded (remove), the legacy migration (save); "
             "the four Receive handlers are reachable only under the matching hook variant and registered token", 20)
    rep.rule("C07.e", "the history entry copies CurrentBatch.requested_* before they are zeroed; the roll-over zeroes both totals and adds one to the id", 3)
    rep.rule("C07.i", "AllHistory pages faithfully: the reported list is collected from a range of the history store bounded by the cursor, cut only by "
             "take(limit) - no skip / filter / step between the store and the response", 1)
    rep.rule("C07.f", "UnbondRequests reports (batch key, bsei_amount, stsei_amount) of the queried address; every AllHistory response field "
             "is the same-named UnbondHistory field (three deprecated aliases tabled)", 13)
    rep.rule("C07.g", "token side: cw20-legacy Send / SendFrom deliver Cw20ReceiveMsg{sender: info.sender, amount: the debited amount}", 2)

    vs, recv, handlers = receive_handlers(prog, sem)
    # C07.c (second half): exactly the four (hook, token) sites
    expect = {(("Unbond",), ("bsei",)), (("Unbond",), ("stsei",)), (("Convert",), ("bsei",)), (("Convert",), ("stsei",))}
    for k in sorted(set(handlers) | expect):
        ok = k in expect and k in handlers and len(handlers[k]) == 1
        rep.ob("C07.c", "Receive handler under hook=%s token=%s" % k, ok,
               "delegating call sites %s" % [v.body.path for v in handlers.get(k, [])] if ok else
               "handler call site(s) %s reachable under hook=%s token=%s (expected exactly one handler per (hook, registered token))" % (
                   [v.body.path for v in handlers.get(k, [])], k[0], k[1]), where(recv.body))

    for tk in ("bsei", "stsei"):
        hv = handlers.get((("Unbond",), (tk,)), [None])[0]
        if hv is None:
            continue
        sub = subtree(vs, hv)
        eff = storage_effects(sem, sub)
        # --- the wait-list store call
        stores = [(v, bb, e) for (v, bb, kind, cell, key, val, e) in eff if cell == NEWWAIT and kind in ("write", "update")]
        if len(stores) != 1:
            rep.ob("C07.a", "%s unbond: wait-list store" % tk, False, "expected exactly one wait-list write, found %d" % len(stores), where(hv.body))
            continue
        sv, sbb, se = stores[0]
        # caller-side arguments of the storing function (structurally: the visit that writes the bucket, called from the handler)
        call_v = sv
        caller = call_v.parent[0]
        cblk = caller.body.blocks[call_v.parent[1]]
        cexpr = caller.resolve(caller.be.ev_call(call_v.parent[1], cblk.term))
        args = list(cexpr.args)
        labs = [sem.label(a) for a in args]
        # identify argument roles by provenance, not by position
        id_args = [a for a, l in zip(args, labs) if l == stored(BATCH, "id")]
        sender_args = [a for a, l in zip(args, labs) if l is not None and l[0] == "param" and l[4][-1:] == ("sender",)]
        rep.ob("C07.a", "%s unbond: batch key = CurrentBatch.id as loaded" % tk, len(id_args) == 1,
               "store arguments %s" % [pl(l) for l in labs], where(caller.body, call_v.parent[1]))
        rep.ob("C07.a", "%s unbond: claim owner = Cw20ReceiveMsg.sender" % tk, len(sender_args) == 1,
               "store arguments %s" % [pl(l) for l in labs], where(caller.body, call_v.parent[1]))
        # --- written wait entity (specialised closure)
        (_, _, wkind, _, wkey, wval, _) = [x for x in eff if x[3] == NEWWAIT and x[2] in ("write", "update")][0]
        wv = written_value_in(sem, vs, sv, wkind, NEWWAIT, wval)
        amt_wait = None
        okb = wv is not None
        det = []
        if okb and wkind == "write":
            # load + modify + save: the entry modified must be the one stored under the key it is saved to
            lds = find(world.ident(wval), lambda y: y.op == "call" and (lambda so: so is not None and so[0] == "read" and so[1] == NEWWAIT)(sem.storage_op(y)))
            for ld in lds:
                so = sem.storage_op(ld)
                if so[2] is None or world.norm(so[2], 0, False) != world.norm(wkey, 0, False):
                    okb = False
                    det.append("the entry saved under %s was loaded from a different key (%s)" % (show(world.norm(wkey, 0, False), 3), show(so[2], 3) if so[2] is not None else None))
        if okb:
            for t2 in ("bsei", "stsei"):
                c = classify(sem, NEWWAIT, sem.field_of(wv, WAITF[t2]), (WAITF[t2],))
                if t2 == tk:
                    if c[0] == "delta" and c[1] == 1:
                        amt_wait = world.ident(c[2])
                    else:
                        okb = False
                        det.append("%s is %s (must be an additive update)" % (WAITF[t2], c[0]))
                elif c[0] != "preserved":
                    okb = False
                    det.append("%s is changed by the %s handler" % (WAITF[t2], tk))
        rep.ob("C07.b", "%s unbond: wait entry adds to %s only" % (tk, WAITF[tk]), okb, "; ".join(det) if det else "additive on %s" % WAITF[tk], where(sv.body, sbb))
        # key of the bucket = (address level, batch key)
        kid = sem.label(wkey) if wkey is not None else None
        rep.ob("C07.a", "%s unbond: bucket key is the batch id" % tk, kid == stored(BATCH, "id"), "bucket key %s" % pl(kid), where(sv.body, sbb))
        # --- CurrentBatch totals
        bw = [(v, bb, kind, val) for (v, bb, kind, cell, key, val, e) in eff if cell == BATCH and kind in ("write", "update")]
        okc = len(bw) == 1
        amt_batch = None
        det = []
        if okc:
            v0, bb0, kind0, val0 = bw[0]
            bv = written_value_in(sem, vs, v0, kind0, BATCH, val0)
            for t2 in ("bsei", "stsei"):
                fv = sem.field_of(bv, REQ[t2])
                alts = fv.args if fv.op == "phi" else (fv,)
                for a in alts:
                    c = classify(sem, BATCH, a, (REQ[t2],))
                    al = sem.label(a)
                    if al is not None and al[0] == "const" and al[2].endswith("::zero"):
                        continue  # rolled over
                    if t2 == tk and c[0] == "delta" and c[1] == 1:
                        if amt_batch is None or amt_batch == world.ident(c[2]):
                            amt_batch = world.ident(c[2])
                        else:
                            okc = False
                            det.append("two different amounts added to %s" % REQ[t2])
                    elif c[0] == "preserved" and t2 != tk:
                        pass
                    else:
                        okc = False
                        det.append("%s written with %s %s" % (REQ[t2], c[0], show(a, 3)))
        else:
            det.append("CurrentBatch written %d times" % len(bw))
        rep.ob("C07.b", "%s unbond: batch total %s += amount, other total untouched" % (tk, REQ[tk]), okc and amt_batch is not None,
               "; ".join(det) if det else "additive on %s" % REQ[tk], where(hv.body))
        rep.ob("C07.a", "%s unbond: batch total and wait-list entry get the same amount" % tk,
               amt_batch is not None and amt_wait is not None and amt_batch == amt_wait,
               "batch += %s ; entry += %s" % (show(amt_batch, 4) if amt_batch is not None else None, show(amt_wait, 4) if amt_wait is not None else None), where(hv.body))
        # --- Burn
        burns = []
        for (v, bb, i, e) in message_effects(sem, sub):
            r = wasm_execute(world, sem, e)
            if r and r[1] is not None and r[1].op == "adt" and r[1].info[1] == "Burn":
                burns.append((v, bb, r))
        okburn = len(burns) == 1
        det = "burn messages: %d" % len(burns)
        if okburn:
            v, bb, (tl, payload, funds, caddr) = burns[0]
            al = sem.label(dict(zip(payload.info[2], payload.args))["amount"])
            okamt = al is not None and al[0] == "param" and al[4][-1:] == ("amount",)
            rep.ob("C07.a", "%s unbond: Burn.amount = Cw20ReceiveMsg.amount" % tk, okamt, "Burn amount %s" % pl(al), where(v.body, bb))
            rep.ob("C07.b", "%s unbond: burns on the token that sent the hook" % tk, tl == TOKENS[tk], "Burn target %s" % pl(tl), where(v.body, bb))
        else:
            rep.ob("C07.a", "%s unbond: Burn.amount = Cw20ReceiveMsg.amount" % tk, False, det, where(hv.body))
            rep.ob("C07.b", "%s unbond: burns on the token that sent the hook" % tk, False, det, where(hv.body))
        # --- amount relation: bsei = amount minus fee (fee shape is C05), stsei = amount itself
        if amt_wait is not None:
            alts = amt_wait.args if amt_wait.op == "phi" else (amt_wait,)
            okrel = True
            for a in alts:
                a = world.ident(a)
                l = sem.label(a)
                if l is not None and l[0] == "param" and l[4][-1:] == ("amount",):
                    continue
                if tk == "bsei" and arith_args(a, "Sub") is not None:
                    l0 = sem.label(arith_args(a, "Sub")[0])
                    if l0 is not None and l0[0] == "param" and l0[4][-1:] == ("amount",):
                        continue
                okrel = False
            rep.ob("C07.b", "%s unbond: recorded amount is the amount sent%s" % (tk, " less the peg fee" if tk == "bsei" else ""), okrel,
                   "recorded %s" % show(amt_wait, 5), where(hv.body))

        # --- C07.e history / roll-over
        hw = [(v, bb, kind, val) for (v, bb, kind, cell, key, val, e) in eff if cell == HISTORY and kind == "write"]
        if len(hw) != 1:
            rep.ob("C07.e", "%s unbond: history entry" % tk, False, "expected one history write in the roll-over, found %d" % len(hw), where(hv.body))
        else:
            v0, bb0, kind0, val0 = hw[0]
            pay = sem.payload(val0) or world.ident(val0)
            okh = pay.op == "adt"
            det = []
            if okh:
                d = dict(zip(pay.info[2], pay.args))
                for fld, req in (("bsei_amount", REQ["bsei"]), ("stsei_amount", REQ["stsei"])):
                    c = world.ident(d[fld])
                    # the value copied is the batch total including this request: stored total (+ amount for the handler's own token)
                    base = c
                    if c.op == "bin" and c.info == "Add":
                        base = world.ident(c.args[0])
                    if sem.label(base) != stored(BATCH, req):
                        okh = False
                        det.append("%s copied from %s" % (fld, show(c, 3)))
                if sem.label(d["batch_id"]) != stored(BATCH, "id"):
                    okh = False
                    det.append("batch_id is %s" % pl(sem.label(d["batch_id"])))
            rep.ob("C07.e", "%s unbond: history copies the batch totals and id before roll-over" % tk, okh, "; ".join(det) if det else "totals and id copied from the current batch", where(v0.body, bb0))
    # the roll-over function itself (discovered: the function whose visit writes the history with released = false)
    roll = None
    for v in vs:
        for (bb, kind, cell, key, val, e) in sem.storage_sites(v.be):
            pass
    ro = [v for v in vs if any(c.body is not None for c in [v]) and v.body.kind != "closure" and _writes_history_directly(sem, vs, v)]
    ro_paths = sorted({v.body.path for v in ro})
    if len(ro_paths) != 1:
        rep.ob("C07.e", "roll-over function", False, "anchor-lost: functions creating history entries: %s" % ro_paths)
    else:
        body = ro[0].body
        # out value of the &mut CurrentBatch parameter
        k = [i for i in range(body.arg_count) if "CurrentBatch" in body.local_tys[i + 1]]
        okz = False
        det = "no &mut CurrentBatch parameter"
        if k:
            out = world.ident(world.out_expr(body, k[0]))
            idv = world.ident(sem.field_of(out, "id"))
            z1 = sem.label(sem.field_of(out, REQ["bsei"]))
            z2 = sem.label(sem.field_of(out, REQ["stsei"]))
            inc = idv.op == "bin" and idv.info == "Add" and any(a.op == "const" and a.info[0] == "scalar" and a.info[1] == 1 for a in idv.args) \
                and any(sem.label(a) is not None and sem.label(a)[0] == "param" and sem.label(a)[4] == ("id",) for a in idv.args)
            okz = inc and z1 is not None and z1[2].endswith("::zero") and z2 is not None and z2[2].endswith("::zero")
            det = "id' = %s, totals' = %s / %s" % (show(idv, 3), z1, z2)
        rep.ob("C07.e", "roll-over zeroes both totals and increments the id by one", okz, det, where(body))

    # ---------------------------------------------------------------- C07.c writers of the wait list per hub variant
    ex = entry(prog, "hub")
    adt_path, adt = msg_enum(prog, ex)
    allowed = {"Receive": {"update"}, "WithdrawUnbonded": {"remove"}, "MigrateUnbondWaitList": {"write"}}
    for vn in [x["name"] for x in adt["variants"]]:
        vv = vs if vn == "Receive" else explore(sem, ex, variant_env(prog, ex, vn))
        kinds = {kind for (v, bb, kind, cell, key, val, e) in storage_effects(sem, vv) if cell == NEWWAIT and kind in ("write", "update", "remove")}
        # (Receive: `update(key, closure)` or `may_load(key)` + modify + `save(key)`; the additive shape and the key are checked by C07.b)
        ok = kinds == allowed.get(vn, set()) or (vn == "Receive" and kinds == {"write"})
        rep.ob("C07.c", "hub::%s wait-list writers" % vn, ok, "wait-list write kinds %s (allowed %s)" % (sorted(kinds), sorted(allowed.get(vn, set()))), where(ex),
               key="C07.c | hub::%s | wait-list writers" % vn)
        if vn == "WithdrawUnbonded":
            rm = [(v, bb, e) for (v, bb, kind, cell, key, val, e) in storage_effects(sem, vv) if cell == NEWWAIT and kind == "remove"]
            for (v, bb, e) in rm:
                # the address level of the bucket is the caller
                addr_ok = bool(find(world.norm(e.args[0]), lambda y: sem.label(y) == ("sender",)))
                rep.ob("C07.c", "claims are removed only from the caller's own wait list", addr_ok, "bucket %s" % show(world.ident(e.args[0]), 5), where(v.body, bb))

    # ---------------------------------------------------------------- C07.f queries
    q = entry(prog, "hub", "query")
    qv = explore(sem, q, variant_env(prog, q, "UnbondRequests"))
    okq = False
    det = "anchor-lost: UnbondRequests handler"
    for v in qv:
        # (the list may be built by a loop pushing tuples or by `range(..).map(|item| ..).collect()`: in the second form the tuple is
        # what the closure returns, its parameter bound to the item of the range)
        ret = v.resolve(world.ret_expr(v.body))
        tups = find(ret, lambda y: y.op == "tuple" and len(y.args) == 3)
        for t in tups:
            fields = []
            for a in t.args:
                n = world.ident(a)
                fields.append(n.info[0] if n.op == "field" else ("key" if n.op == "call" and n.info == "cosmwasm_std::from_json" else "?"))
            if fields[1:] == ["bsei_amount", "stsei_amount"] and fields[0] == "key":
                rd = find(world.norm(t), lambda y: y.op == "call" and y.info.endswith("Bucket::range"))
                addr = bool(rd) and bool(find(rd[0], lambda y: sem.label(y) is not None and sem.label(y)[0] == "param" and sem.label(y)[4][-1:] == ("address",)))
                okq = addr
                det = "tuple fields %s, bucket level = queried address: %s" % (fields, addr)
    rep.ob("C07.f", "UnbondRequests returns (batch, bsei_amount, stsei_amount) of the queried address", okq, det, where(q))
    ALIAS = {"amount": "bsei_amount", "applied_exchange_rate": "bsei_applied_exchange_rate", "withdraw_rate": "bsei_withdraw_rate"}
    qv = explore(sem, q, variant_env(prog, q, "AllHistory"))
    found = False
    for v in qv:
        for blk in v.body.blocks:
            if blk.idx not in v.blocks:
                continue
            for i, s in enumerate(blk.stmts):
                if s.kind == "assign" and s.rv.kind == "agg" and s.rv.j.get("adt", "").endswith("UnbondHistoryResponse"):
                    found = True
                    e = v.be.ev_rvalue(blk.idx, i, s.rv)
                    for fname, fe in zip(e.info[2], e.args):
                        n = world.ident(fe)
                        src = n.info[0] if n.op == "field" else None
                        ok = src == ALIAS.get(fname, fname)
                        rep.ob("C07.f", "AllHistory.%s" % fname, ok, "copied from UnbondHistory.%s" % src, where(v.body, blk.idx), key="C07.f | AllHistory | %s" % fname)
    if not found:
        rep.ob("C07.f", "AllHistory response", False, "anchor-lost: no UnbondHistoryResponse construction reachable from the AllHistory query")

    # ---------------------------------------------------------------- C07.i paging of AllHistory
    from ..iters import pipeline, droppers, last
    pag = []
    for (v, bb, e) in call_sites(sem, qv, lambda k: last(k) in ("collect", "from_iter")):
        if not e.args:
            continue
        lv = v.be.ev_call(bb, v.body.blocks[bb].term)
        ads, base = pipeline(world, lv.args[0])
        if not (base.op == "call" and last(base.info) == "range"):
            continue
        pag.append((v, bb, [nm for nm, _ in droppers(world, lv.args[0])]))
    if not pag:
        rep.ob("C07.i", "AllHistory paging", False, "anchor-lost: the AllHistory query does not collect a range of the history store", where(q))
    for (v, bb, dr) in pag:
        extra = [d_ for d_ in dr if d_ != "take"]
        rep.ob("C07.i", "AllHistory reports every stored entry of the page", not extra,
               "entries of the range can be dropped by %s before they are reported (a cursor that names no stored batch then hides a real one)" % extra if extra
               else "range from the cursor bound, at most `limit` entries (take), nothing skipped or filtered", where(v.body, bb), key="C07.i | %s" % v.body.path, fkey="AllHistory")

    # ---------------------------------------------------------------- C07.g token side
    bex = entry(prog, "bsei")
    for vn in ("Send", "SendFrom"):
        bvs = explore(sem, bex, variant_env(prog, bex, vn))
        hits = []
        for v in bvs:
            for blk in v.body.blocks:
                if blk.idx not in v.blocks:
                    continue
                for i, s in enumerate(blk.stmts):
                    if s.kind == "assign" and s.rv.kind == "agg" and s.rv.j.get("adt", "").endswith("Cw20ReceiveMsg"):
                        hits.append((v, blk.idx, v.resolve(v.be.ev_rvalue(blk.idx, i, s.rv))))
        ok = len(hits) == 1
        det = "Cw20ReceiveMsg constructions: %d" % len(hits)
        if ok:
            v, bb, e = hits[0]
            d = dict(zip(e.info[2], e.args))
            sl, al = sem.label(d["sender"]), sem.label(d["amount"])
            ok = sl == ("sender",) and al is not None and al[0] == "param" and al[4] == ("amount",)
            det = "sender=%s amount=%s" % (pl(sl), pl(al))
        rep.ob("C07.g", "bsei::%s hook message" % vn, ok, det, where(bex))


def _writes_history_directly(sem, vs, v):
    """v calls (directly) a function that writes the history map with released = false"""
    for c in vs:
        if c.parent is not None and c.parent[0] is v and c.body.kind != "closure":
            for (bb, kind, cell, key, val, e) in sem.storage_sites(c.be):
                if cell == HISTORY and kind == "write" and bb in c.blocks:
                    pay = sem.payload(c.resolve(val)) if val is not None else None
                    if pay is not None and pay.op == "adt":
                        d = dict(zip(pay.info[2], pay.args))
                        r = d.get("released")
                        if r is not None and r.op == "const" and r.info[0] == "scalar" and r.info[1] == 0:
                            return True
    return False
