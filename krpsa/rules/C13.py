"""C13 - removing a validator moves its whole stake: structural clauses (DESIGN 6, C13)."""
from ..authz import GuardAnalysis
from ..callgraph import explore, storage_effects, message_effects, call_sites, site_guarded, always_passes
from ..expr import show, find
from .common import entry, variant_env, stored, where, arm_handler
from .msgs import wasm_execute, coin_parts, vec_elems
from .C10 import mk_pass, RGCFG, RGREG
from .msgs import push_sequences, response_sequences, collection_repr
from ..iters import item_source, base_of, droppers, nth_of, strip_coll
from .hub_common import early_exits

HUB = stored(RGCFG, "hub_contract")


def strip_perm(world, e):
    """a sorted / dereferenced collection is the same collection"""
    x = world.ident(e, expand_ws=False)
    while x.op == "out" and (x.info[0].endswith("slice::sort_by") or x.info[0].endswith("deref_mut") or x.info[0].endswith("iter_mut")):
        x = world.ident(x.args[0], expand_ws=False)
    if x.op == "call" and x.info in ("std::vec::Vec::as_slice",):
        x = world.ident(x.args[0], expand_ws=False)
    return x


def run(prog, world, sem, rep):
    rep.rule("C13.a", "RemoveValidator is owner-only (every success exit behind sender == Config.owner)", 1)
    rep.rule("C13.b", "the validator is removed from the registry before the remaining validators are counted; every success exit is behind the "
             "observation that the remaining list is not empty", 2)
    rep.rule("C13.f", "a successful RemoveValidator has removed the registry entry: no success exit is reachable around the removal", 1)
    rep.rule("C13.c", "the amount redistributed is the hub's whole delegation on that validator (query_delegation(Config.hub_contract, address).amount.amount); "
             "targets are remaining[i].address paired by index with plan[i]; source = the removed address; coin denom = the delegation's denom", 4)
    rep.rule("C13.d", "messages: RedelegateProxy then UpdateGlobalIndex, both to Config.hub_contract without funds; the only message-less success is on "
             "the can_redelegate < amount edge (or when there is no delegation)", 3)
    rep.rule("C13.e", "hub side: RedelegateProxy builds one StakingMsg::Redelegate per entry with src / dst / amount copied from the message", 3)

    ex = entry(prog, "registry")
    env = variant_env(prog, ex, "RemoveValidator")
    seen = set()
    wit = GuardAnalysis(sem, mk_pass(sem, [stored(RGCFG, "owner")], seen)).unguarded(ex, env)
    rep.ob("C13.a", "owner-only", not wit, "unguarded success: %s" % (wit[:1],) if wit else "guarded by Config.owner", where(ex))
    vs = explore(sem, ex, env)
    h = arm_handler(sem, vs)
    be = h.be
    # ---- C13.b
    rm = [bb for (bb, kind, cell, key, val, e) in sem.storage_sites(be) if cell == RGREG and kind == "remove"]
    counters = [v for v in vs if v.parent and v.parent[0] is h and v.body.kind != "closure" and
                any(cell == RGREG and kind == "read" for (bb, kind, cell, key, val, e) in sem.storage_sites(v.be))]
    ok = len(rm) == 1 and len(counters) >= 1
    det = "registry removals %d, recount calls %d" % (len(rm), len(counters))
    if ok:
        cbb = counters[0].parent[1]
        keyl = [sem.label(h.resolve(key)) for (bb, kind, cell, key, val, e) in sem.storage_sites(be) if cell == RGREG and kind == "remove"][0]
        ok = be.cfg.dominates(rm[0], cbb) and keyl is not None and keyl[0] == "param" and keyl[4] == ("address",)
        det = "remove(%s) at line %d %s the recount at line %d" % (keyl[4] if keyl else None, h.body.blocks[rm[0]].term.line, "dominates" if be.cfg.dominates(rm[0], cbb) else "does not dominate", h.body.blocks[cbb].term.line)
    rep.ob("C13.b", "remove precedes recount", ok, det, where(h.body))
    r0 = be.cfg.reach([0], stop=set(rm))
    # (a handler that ends in `helper(..)` - the helper builds the Response - can succeed at that exit: it counts as a success exit)
    oks0 = [bb for (bb, idx, kind, x) in sem.ret_sites(be) if kind in ("ok", "call") and bb in h.blocks]
    rep.ob("C13.f", "every success exit passes the registry removal", bool(rm) and bool(oks0) and not any(b in r0 for b in oks0),
           "RemoveValidator can report success without having removed the validator from the registry" if (not rm or any(b in r0 for b in oks0)) else "all success exits after REGISTRY.remove", where(h.body))
    cpath = counters[0].body.path if counters else None

    def fne(f, resolve):
        if f[0] == "truth" and f[2] is False and f[1].op == "call" and f[1].info.endswith("Vec::is_empty"):
            x = strip_perm(world, f[1].args[0])
            if x.op == "proj":
                x = x.args[0]
            return x.op == "call" and x.info == cpath
        return False
    pe = set()
    for blk in h.body.blocks:
        if blk.term.kind == "switch" and blk.idx in be.cfg.live:
            for succ, fl in sem.edge_facts(be, blk.idx).items():
                if any(fne(f, h.resolve) for f in fl):
                    pe.add((blk.idx, succ))
    r = be.cfg.reach([0], removed=pe)
    oks = [bb for (bb, idx, kind, x) in sem.ret_sites(be) if kind in ("ok", "call") and bb in h.blocks]
    rep.ob("C13.b", "never removes the last validator", bool(pe) and bool(oks) and not any(b in r for b in oks),
           "a success exit is reachable without observing a non-empty remaining list" if (not pe or any(b in r for b in oks)) else "all %d success exits behind !remaining.is_empty()" % len(oks), where(h.body))
    # ---- C13.c  (the planner call and the message construction may sit in the handler or in a helper it calls)
    pc = call_sites(sem, vs, lambda k: k.endswith("common::calculate_delegations"))
    deleg = None
    if len(pc) != 1:
        rep.ob("C13.c", "planner call", False, "expected one planner call, found %d" % len(pc), where(h.body))
    else:
        pv, pbb, pe_ = pc[0]
        amt = world.norm(pe_.args[0], 0, False)
        okq = False
        det = show(amt, 5)
        if amt.op == "field" and amt.info[0] == "amount" and amt.args[0].op == "field" and amt.args[0].info[0] == "amount":
            qs = find(amt.args[0].args[0], lambda y: y.op == "call" and y.info.endswith("QuerierWrapper::query_delegation"))
            if qs:
                q = qs[0]
                okq = sem.label(q.args[1]) == HUB and sem.label(q.args[2]) is not None and sem.label(q.args[2])[4] == ("address",)
                deleg = q
                det = "query_delegation(%s, %s).amount.amount" % (sem.label(q.args[1]), sem.label(q.args[2])[4] if sem.label(q.args[2]) else None)
        rep.ob("C13.c", "whole delegation is redistributed", okq, det, where(pv.body, pbb))
        vals = strip_perm(world, pe_.args[1])
        if vals.op == "proj":
            vals = vals.args[0]
        rep.ob("C13.c", "redistribution over the remaining registered validators", vals.op == "call" and vals.info == cpath, "targets from %s" % show(vals, 3), where(pv.body, pbb))
    # message contents
    rp = None
    ug = None
    for (v, bb, i, e) in message_effects(sem, vs):
        r0 = wasm_execute(world, sem, e)
        if r0 and r0[1] is not None and r0[1].op == "adt":
            if r0[1].info[1] == "RedelegateProxy":
                rp = (v, bb, r0)
            elif r0[1].info[1] == "UpdateGlobalIndex":
                ug = (v, bb, r0)
    if rp is None:
        rep.ob("C13.c", "RedelegateProxy message", False, "anchor-lost: no RedelegateProxy message", where(h.body))
    else:
        v, bb, (tl, payload, funds, caddr) = rp
        d = dict(zip(payload.info[2], payload.args))
        sl = sem.label(d["src_validator"])
        rep.ob("C13.c", "source validator = the removed address", sl is not None and sl[0] == "param" and sl[4] == ("address",), "src %s" % (sl,), where(v.body, bb))
        cr = collection_repr(world, d["redelegations"])
        items = [cr] if cr is not None else [x for s0 in push_sequences(world, d["redelegations"]) for x in s0]
        okp = bool(items)
        det = "no redelegation entries"
        for it in items:
            t = world.norm(it, 0, False)
            if not (t.op == "tuple" and len(t.args) == 2):
                okp = False
                det = "entry %s" % show(t, 3)
                continue
            dst, coin = t.args
            camt, cden = coin_parts(world, sem, coin)
            nd = nth_of(world, dst.args[0]) if dst.op == "field" and dst.info[0] == "address" else None
            na = nth_of(world, world.norm(camt, 0, False))
            same = nd is not None and na is not None and nd[1] == na[1]
            pl = world.norm(na[0], 0, False) if na is not None else None
            plan = pl is not None and pl.op == "field" and pl.info[0] == "1" and bool(find(pl, lambda y: y.op == "call" and y.info.endswith("common::calculate_delegations")))
            tv = strip_perm(world, nd[0]) if nd is not None else None
            if tv is not None and tv.op == "proj":
                tv = tv.args[0]
            tgt = tv is not None and tv.op == "call" and tv.info == cpath
            dn = world.norm(cden, 0, False)
            den = dn.op == "field" and dn.info[0] == "denom" and deleg is not None and bool(find(dn, lambda y: y == deleg))
            okp = okp and same and plan and tgt and den
            det = "same position: %s, amount from plan: %s, target from remaining validators: %s, denom of the delegation: %s" % (same, plan, tgt, den)
        rep.ob("C13.c", "entries pair remaining[i].address with plan[i] in the delegation's denom", okp, det, where(v.body, bb))
    # ---- C13.d
    okt = rp is not None and ug is not None and rp[2][0] == HUB and ug[2][0] == HUB and vec_elems(world, rp[2][2]) == [] and vec_elems(world, ug[2][2]) == []
    rep.ob("C13.d", "both messages go to Config.hub_contract without funds", okt, "targets %s / %s" % (rp[2][0] if rp else None, ug[2][0] if ug else None), where(h.body))
    ret = world.ret_expr(h.body)
    ordered = False
    det = "anchor-lost: response message list"
    # (the Response may be built by a helper the handler ends in: the helper's own Ok alternatives)
    seqs = [s for alt in world._ok_alts(ret, "ok", 0, True) for s in response_sequences(world, h.resolve(alt))]
    if seqs:
        kinds = []
        for s in seqs:
            ks = []
            for x in s:
                from .msgs import through_closure_call
                xi = world.ident(through_closure_call(world, x))
                inner = world.ident(xi.args[0]) if xi.op == "adt" and xi.info[0].endswith("CosmosMsg") and xi.args else xi
                r0 = wasm_execute(world, sem, inner) if inner.op == "adt" else None
                ks.append(r0[1].info[1] if r0 and r0[1] is not None and r0[1].op == "adt" else "?")
            if ks not in kinds:
                kinds.append(ks)
        ordered = all(k in ([], ["RedelegateProxy", "UpdateGlobalIndex"]) for k in kinds) and ["RedelegateProxy", "UpdateGlobalIndex"] in kinds
        det = "message sequences %s" % kinds
    rep.ob("C13.d", "RedelegateProxy precedes UpdateGlobalIndex", ordered, det, where(h.body))

    # message-less success only when redelegation is impossible: from the handler's entry, every success exit passes the construction
    # of the RedelegateProxy message, except through the edges `can_redelegate < amount`, "no delegation" and "query failed"
    def allowed(f, resolve):
        if f[0] == "cmp" and f[1] == "Lt":
            a = world.norm(resolve(f[2]), 0, False)
            b2 = world.norm(resolve(f[3]), 0, False)
            return a.op == "field" and a.info[0] == "amount" and a.args[0].op == "field" and a.args[0].info[0] == "can_redelegate" and \
                b2.op == "field" and b2.info[0] == "amount" and b2.args[0].op == "field" and b2.args[0].info[0] == "amount"
        if f[0] == "variant" and f[2] in ("None", "Err"):
            return bool(find(world.norm(resolve(f[1]), 0, False), lambda y: y.op == "call" and y.info.endswith("QuerierWrapper::query_delegation")) or
                        (f[1].op == "call" and f[1].info.endswith("QuerierWrapper::query_delegation")))
        return False
    okm, dm = (False, "anchor-lost: no RedelegateProxy message")
    if rp is not None:
        okm, dm = always_passes(sem, rp[0], rp[1], allowed, h)
    rep.ob("C13.d", "message-less success only when redelegation is impossible", okm, dm, where(h.body))
    # ---- C13.e hub side
    hex_ = entry(prog, "hub")
    hvs = explore(sem, hex_, variant_env(prog, hex_, "RedelegateProxy"))
    rd = [(v, bb, e) for (v, bb, i, e) in message_effects(sem, hvs) if e.info[0].endswith("StakingMsg") and e.info[1] == "Redelegate"]
    if len(rd) != 1:
        for k in ("src_validator", "dst_validator", "amount"):
            rep.ob("C13.e", "Redelegate.%s" % k, False, "expected one Redelegate construction, found %d" % len(rd), where(hex_))
    else:
        v, bb, e = rd[0]
        d = dict(zip(e.info[2], e.args))
        sl = sem.label(d["src_validator"])
        rep.ob("C13.e", "Redelegate.src_validator", sl is not None and sl[0] == "param" and sl[4] == ("src_validator",), "src %s" % (sl,), where(v.body, bb))
        # dst / amount are the components of the closure's item, which iterates msg.redelegations
        dst = world.ident(d["dst_validator"], expand_ws=False)
        amt = world.ident(d["amount"], expand_ws=False)
        same_item = dst.op == "field" and amt.op == "field" and dst.info[0] == "0" and amt.info[0] == "1" and dst.args[0] == amt.args[0]
        rep.ob("C13.e", "Redelegate.dst_validator / amount are the two components of one entry", same_item, "dst %s amount %s" % (show(dst, 3), show(amt, 3)), where(v.body, bb))
        # the entry walks msg.redelegations (closure of a map, or a `for` loop), and no entry is skipped
        okm = False
        why = "dst / amount are not components of an iteration item"
        if same_item:
            src = item_source(world, dst.args[0])
            base = base_of(world, src) if src is not None else None
            bl = sem.label(v.resolve(base)) if base is not None else None
            okm = bl is not None and bl[0] == "param" and bl[4] == ("redelegations",)
            why = "entries of %s" % (bl,)
            if okm:
                if v.body.kind == "closure":
                    dr = droppers(world, src)
                    okm = not dr
                    why += "; adaptors dropping entries: %s" % [d0[0] for d0 in dr]
                else:
                    ee = early_exits(sem, v, bb)
                    okm = ee == []
                    why += "; early exits %s" % (ee,)
        rep.ob("C13.e", "one Redelegate per entry of msg.redelegations", okm, why, where(v.body, bb))
