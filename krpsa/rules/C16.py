"""C16 - reward-contract balances mirror bSei token balances (DESIGN 6, C16)."""
from ..callgraph import explore, storage_effects, message_effects
from ..expr import show, find
from ..ledger import ledger_entries, stale_reads
from .common import entry, msg_enum, variant_env, stored, where, arm_handler
from .msgs import wasm_execute, response_sequences
from .C10 import BSHUB

BAL = "cw20_legacy::state::BALANCES"
HOLDERS = "basset_sei_reward::state::HOLDERS"
RSTATE = "basset_sei_reward::state::STATE"

HUB_CFG_Q = ("query", stored(BSHUB), "basset::hub::QueryMsg", "Config", ("reward_dispatcher_contract",))
REWARD_TARGET = ("query", HUB_CFG_Q, "basset_sei_rewards_dispatcher::msg::QueryMsg", "Config", ("bsei_reward_contract",))


def kname(l):
    if l == ("sender",):
        return "sender"
    if l is not None and l[0] == "param" and l[4]:
        return "msg." + ".".join(l[4])
    return str(l)


def run(prog, world, sem, rep):
    rep.rule("C16.a", "mirror agreement: for every bSei message variant the multiset of reward messages {Increase|Decrease(address, amount)} "
             "equals the cw20 ledger's balance deltas {+|-(account, amount)} (same accounts, signs and amount)", 9)
    rep.rule("C16.g", "the mirror is unconditional: every success exit of a balance-changing bSei variant passes the construction of each of its mirror "
             "messages, except through an edge on which the debited and the credited account were observed to be the same address", 7)
    rep.rule("C16.f", "reward side: every success exit of IncreaseBalance / DecreaseBalance has written both the holder record and State (no path "
             "updates one store and not the other)", 2)
    rep.rule("C16.c", "in Send / SendFrom the mirror messages precede the wrapped response's messages (the receive hook)", 2)
    rep.rule("C16.d", "reward side: IncreaseBalance / DecreaseBalance apply the message amount with the same sign to the holder's balance "
             "(record keyed by the message address) and to State.total_balance", 2)
    rep.rule("C16.e", "mirror messages go to dispatcher-ConfigResponse.bsei_reward_contract obtained via the hub's Config query to the stored hub address", 11)

    ex = entry(prog, "bsei")
    adt_path, adt = msg_enum(prog, ex)
    for v in [x["name"] for x in adt["variants"]]:
        vs = explore(sem, ex, variant_env(prog, ex, v))
        eff = storage_effects(sem, vs)
        ledger = set()
        bad = []
        for x in ledger_entries(sem, eff, {BAL: []}):
            w0 = x["what"]
            if w0[0] == "preserved":
                continue
            if w0[0] != "delta":
                bad.append("non-delta balance write at %s" % where(x["vis"].body, x["bb"]))
                continue
            ledger.add((w0[1], kname(x["key"]), kname(sem.label(w0[2]))))
        mirror = set()
        n_msgs = 0
        for (vis, bb, i, e) in message_effects(sem, vs):
            r = wasm_execute(world, sem, e)
            if r is None:
                continue
            tl, payload, funds, caddr = r
            if payload is None or payload.op != "adt" or payload.info[1] not in ("IncreaseBalance", "DecreaseBalance"):
                continue
            n_msgs += 1
            d = dict(zip(payload.info[2], payload.args))
            sign = 1 if payload.info[1] == "IncreaseBalance" else -1
            mirror.add((sign, kname(sem.label(d["address"])), kname(sem.label(d["amount"]))))
            rep.ob("C16.e", "bsei::%s %s target" % (v, payload.info[1]), tl == REWARD_TARGET,
                   "mirror message target %s" % (tl,) if tl != REWARD_TARGET else "target = dispatcher Config.bsei_reward_contract via hub Config",
                   where(vis.body, bb), key="C16.e | bsei::%s | %s" % (v, payload.info[1]))
            if payload.info[0] != "basset::reward::ExecuteMsg":
                bad.append("mirror payload type %s" % payload.info[0])
        if ledger != mirror:
            bad.append("ledger deltas %s but mirror messages %s" % (sorted(ledger), sorted(mirror)))
        if ledger:
            # C16.g: must-pass-through at the level of the variant's handler
            hh = arm_handler(sem, vs)
            accounts = {a for (_, a, _) in ledger}

            def same_account(f, resolve):
                if f[0] == "cmp" and f[1] == "Eq":
                    ks = {kname(sem.label(resolve(f[2]))), kname(sem.label(resolve(f[3])))}
                    return len(accounts) == 2 and ks == accounts
                return False
            allowed = set()
            for blk in hh.body.blocks:
                if blk.term.kind == "switch" and blk.idx in hh.blocks:
                    for succ, fl in sem.edge_facts(hh.be, blk.idx).items():
                        if any(same_account(f, hh.resolve) for f in fl):
                            allowed.add((blk.idx, succ))
            oks = [bb for (bb, idx, kind, x) in sem.ret_sites(hh.be) if kind == "ok" and bb in hh.blocks]
            skipped = []
            nsites = 0
            for (vis, bb, i, e) in message_effects(sem, vs):
                r = wasm_execute(world, sem, e)
                if r is None or r[1] is None or r[1].op != "adt" or r[1].info[1] not in ("IncreaseBalance", "DecreaseBalance"):
                    continue
                lv, lbb = vis, bb
                while lv is not hh and lv.parent is not None:
                    lv, lbb = lv.parent
                if lv is not hh:
                    continue
                nsites += 1
                reach = hh.be.cfg.reach([0], removed=allowed, stop={lbb})
                if any(b in reach and b != lbb for b in oks):
                    skipped.append("%s (line %d)" % (r[1].info[1], vis.body.blocks[bb].term.line))
            rep.ob("C16.g", "bsei::%s always emits its mirror messages" % v, bool(oks) and nsites > 0 and not skipped,
                   "a success exit of bsei::%s is reachable without emitting %s although the ledger changes (only a transfer whose debited and credited "
                   "account coincide may skip the mirror)" % (v, skipped) if skipped else "every success exit carries the %d mirror message(s)" % nsites,
                   where(hh.body), key="C16.g | bsei::%s" % v)
        st = stale_reads(sem, eff, {BAL: []})
        if st:
            bad.append("a balance saved at line %d is computed from a load made stale by the write at line %d when the accounts coincide (the mirror messages net to zero, the ledger does not)" % (
                st[0][0].body.blocks[st[0][1]].term.line, st[0][0].body.blocks[st[0][3]].term.line))
        if n_msgs != len(mirror):
            bad.append("duplicate mirror messages (%d messages, %d distinct)" % (n_msgs, len(mirror)))
        rep.ob("C16.a", "bsei::%s" % v, not bad, "; ".join(bad) if bad else "ledger = mirror = %s" % sorted(ledger), where(ex), key="C16.a | bsei::%s" % v)

        if v in ("Send", "SendFrom"):
            h = arm_handler(sem, vs)
            seqs = []
            for (bb0, idx0, kind0, x0) in sem.ret_sites(h.be):
                if kind0 == "ok" and bb0 in h.blocks:
                    # (the Response may be assembled by a helper: `Ok(send_response(..)?)` - the helper's own Ok alternatives)
                    p0 = world.ident(x0.args[0], expand_ws=False) if x0.op == "adt" and x0.args else None
                    c0 = p0.args[0] if p0 is not None and p0.op == "proj" and p0.info == "ok" and p0.args else None
                    if c0 is not None and c0.op == "call" and world.callee_body(c0) is not None:
                        for alt in world._ok_alts(c0, "ok", 0, True) or []:
                            seqs.extend(response_sequences(world, h.resolve(alt)))
                    else:
                        seqs.extend(response_sequences(world, h.resolve(x0)))
            ok = bool(seqs)
            detail = "anchor-lost: no response found in %s" % h.body.path
            for sq in seqs:
                kinds = []
                for el in sq:
                    el_i = world.ident(el)
                    if find(world.norm(el_i), lambda y: y.op == "adt" and y.info[1] in ("IncreaseBalance", "DecreaseBalance")):
                        kinds.append("mirror")
                    elif find(el_i, lambda y: y.op == "field" and y.info[0] == "messages"):
                        kinds.append("wrapped")
                    else:
                        kinds.append("other")
                # one or several mirror elements, then the wrapped cw20 response's messages (the receive hook), nothing else
                shape = [k for i, k in enumerate(kinds) if i == 0 or k != kinds[i - 1]]
                if shape != ["mirror", "wrapped"]:
                    ok = False
                detail = "message order %s" % kinds
                if not ok:
                    break
            rep.ob("C16.c", "bsei::%s mirror before hook" % v, ok, detail, where(h.body))

    # reward side
    rex = entry(prog, "reward")
    for v, sign in (("IncreaseBalance", 1), ("DecreaseBalance", -1)):
        vs = explore(sem, rex, variant_env(prog, rex, v))
        eff = storage_effects(sem, vs)
        ents = ledger_entries(sem, eff, {HOLDERS: ["balance"], RSTATE: ["total_balance"]})
        hb = [x for x in ents if x["cell"] == HOLDERS and x["what"][0] != "preserved"]
        tb = [x for x in ents if x["cell"] == RSTATE and x["what"][0] != "preserved"]
        bad = []
        for lst, nm in ((hb, "Holder.balance"), (tb, "State.total_balance")):
            if len(lst) != 1:
                bad.append("%s written %d times" % (nm, len(lst)))
                continue
            w0 = lst[0]["what"]
            al = sem.label(w0[2]) if w0[0] == "delta" else None
            if not (w0[0] == "delta" and w0[1] == sign and al is not None and al[0] == "param" and al[4] == ("amount",)):
                bad.append("%s not changed by %+d x msg.amount: %s" % (nm, sign, w0[:2]))
        if hb and kname(hb[0]["key"]) != "msg.address":
            bad.append("holder record keyed by %s instead of msg.address" % kname(hb[0]["key"]))
        # C16.f must-write
        from .common import arm_handler as _ah
        h = _ah(sem, vs)
        miss = []
        for cellx in (HOLDERS, RSTATE):
            sites = set()
            for (vis, bb, kind, cell2, key, val, e) in eff:
                if cell2 == cellx and kind in ("write", "update"):
                    lv, lbb = vis, bb
                    while lv is not h and lv.parent is not None:
                        lv, lbb = lv.parent
                    if lv is h:
                        sites.add(lbb)
            oks = [bb for (bb, idx, kind, x) in sem.ret_sites(h.be) if kind == "ok" and bb in h.blocks]
            r = h.be.cfg.reach([0], stop=sites)
            if not sites or not oks or any(b in r for b in oks):
                miss.append(cellx.split("::")[-1])
        rep.ob("C16.f", "reward::%s always writes holder and State" % v, not miss, "a success exit is reachable without writing %s" % miss if miss else "both stores written on every success path", where(h.body))
        rep.ob("C16.d", "reward::%s" % v, not bad, "; ".join(bad) if bad else "balance and total_balance %+d x msg.amount, keyed by msg.address" % sign, where(rex))
