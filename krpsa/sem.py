"""Semantic helpers on top of evalx: identity labels (A4 sources), storage cells and effect
sites (A6), message constructions, exit classification (A1), edge facts / pass edges (A2),
entry-specialised constant propagation (A9)."""
from .expr import E, UNKNOWN, mk_phi, simplify, show, walk, find, IDENT_ARG
from .ir import strip_generics

# ---------------------------------------------------------------------------------------
# storage API model: key -> (kind, container arg, key arg or None, value arg or None)
STORAGE_OPS = {
    "cw_storage_plus::Item::load": ("read", 0, None, None),
    "cw_storage_plus::Item::may_load": ("read", 0, None, None),
    "cw_storage_plus::Item::save": ("write", 0, None, 2),
    "cw_storage_plus::Item::update": ("update", 0, None, 2),
    "cw_storage_plus::Item::remove": ("remove", 0, None, None),
    "cw_storage_plus::Map::load": ("read", 0, 2, None),
    "cw_storage_plus::Map::may_load": ("read", 0, 2, None),
    "cw_storage_plus::Map::has": ("read", 0, 2, None),
    "cw_storage_plus::Map::range": ("read", 0, None, None),
    "cw_storage_plus::Map::keys": ("read", 0, None, None),
    "cw_storage_plus::Map::prefix": ("read", 0, None, None),
    "cw_storage_plus::Map::save": ("write", 0, 2, 3),
    "cw_storage_plus::Map::update": ("update", 0, 2, 3),
    "cw_storage_plus::Map::remove": ("remove", 0, 2, None),
    "cosmwasm_storage::Bucket::save": ("write", 0, 1, 2),
    "cosmwasm_storage::Bucket::update": ("update", 0, 1, 2),
    "cosmwasm_storage::Bucket::remove": ("remove", 0, 1, None),
    "cosmwasm_storage::Bucket::load": ("read", 0, 1, None),
    "cosmwasm_storage::Bucket::may_load": ("read", 0, 1, None),
    "cosmwasm_storage::Bucket::range": ("read", 0, None, None),
    "cosmwasm_storage::ReadonlyBucket::load": ("read", 0, 1, None),
    "cosmwasm_storage::ReadonlyBucket::may_load": ("read", 0, 1, None),
    "cosmwasm_storage::ReadonlyBucket::range": ("read", 0, None, None),
    "cosmwasm_storage::Singleton::save": ("write", 0, None, 1),
    "cosmwasm_storage::Singleton::load": ("read", 0, None, None),
    "cosmwasm_storage::Singleton::update": ("update", 0, None, 1),
    "cosmwasm_storage::Singleton::remove": ("remove", 0, None, None),
    "cosmwasm_storage::ReadonlySingleton::load": ("read", 0, None, None),
    "cosmwasm_storage::ReadonlySingleton::may_load": ("read", 0, None, None),
    "cosmwasm_std::Storage::set": ("write", 0, 1, 2),
    "cosmwasm_std::Storage::remove": ("remove", 0, 1, None),
    "cosmwasm_std::Storage::get": ("read", 0, 1, None),
    "cosmwasm_std::Storage::range": ("read", 0, None, None),
    "cw2::set_contract_version": ("write", None, None, None),
}

CONTAINER_CTORS = {
    "cosmwasm_storage::Bucket::multilevel": "bucket",
    "cosmwasm_storage::Bucket::new": "bucket",
    "cosmwasm_storage::ReadonlyBucket::multilevel": "bucket",
    "cosmwasm_storage::ReadonlyBucket::new": "bucket",
    "cosmwasm_storage::Singleton::new": "singleton",
    "cosmwasm_storage::ReadonlySingleton::new": "singleton",
    "cosmwasm_storage::PrefixedStorage::new": "prefixed",
    "cosmwasm_storage::PrefixedStorage::multilevel": "prefixed",
    "cosmwasm_storage::ReadonlyPrefixedStorage::new": "prefixed",
    "cosmwasm_storage::ReadonlyPrefixedStorage::multilevel": "prefixed",
}

MSG_ADTS = ("cosmwasm_std::BankMsg", "cosmwasm_std::StakingMsg", "cosmwasm_std::DistributionMsg",
            "cosmwasm_std::WasmMsg", "cosmwasm_std::IbcMsg", "cosmwasm_std::GovMsg")


class Sem:
    def __init__(self, world):
        self.w = world
        self.prog = world.prog
        self._label_memo = {}
        world.specialiser = self.arg_specialisation

    # ------------------------------------------------------------------ storage cells
    def cell_of(self, e):
        """identify the storage container expression; returns a string id or None"""
        e = self.w.ident(e)
        if e.op == "cell":
            return e.info
        if e.op == "const" and e.info[0] in ("item", "static"):
            return self.canon_cell(e.info[1])
        if e.op == "call" and e.info in CONTAINER_CTORS:
            kind = CONTAINER_CTORS[e.info]
            statics = []

            def f(x):
                if x.op == "const" and x.info[0] == "static":
                    statics.append(x.info[1])
                if x.op == "param":
                    return False
            for a in e.args[1:]:
                walk(a, f)
            if statics:
                return "%s:%s" % (kind, statics[0])
            return "%s:?" % kind
        if e.op == "phi":
            cs = {self.cell_of(a) for a in e.args}
            if len(cs) == 1:
                return cs.pop()
        if e.op == "out":
            # container mutated in place (e.g. after Bucket::remove(&mut b)): same cell as before
            return self.cell_of(e.args[0])
        return None

    def canon_cell(self, path):
        """a storage container is identified by (crate, storage key, value type), not by the name of the const holding it: a const of
        today's tree whose identity equals a pinned one (krpsa/cells_pinned.json, from the pinned tree) is called by the pinned name, so
        that renaming or moving the const changes nothing for the rules"""
        m = self.__dict__.get("_cell_alias")
        if m is None:
            import json as _json, os as _os, re as _re
            m = {}
            try:
                pinned = _json.load(open(_os.path.join(_os.path.dirname(_os.path.abspath(__file__)), "cells_pinned.json")))
            except Exception:
                pinned = {}
            for b in self.prog.bodies.values():
                if b.kind not in ("const", "static") or not b.blocks or b.blocks[0].term.kind != "call":
                    continue
                c = b.blocks[0].term.callee
                if not _re.search(r"cw_storage_plus::(Item|Map)::.*::new$", c.path):
                    continue
                key = None
                for st in b.j["blocks"][0]["stmts"]:
                    op = st.get("rv", {}).get("op", {})
                    if op.get("k") == "const" and "str" in op:
                        key = op["str"]
                if key is None:
                    continue
                sig = "%s|%s|%s" % (b.path.split("::")[0], key, c.j.get("full") if hasattr(c, "j") else "")
                if sig in pinned and pinned[sig] != b.path and pinned[sig] not in self.prog.bodies:
                    m[b.path] = pinned[sig]
            self._cell_alias = m
        return m.get(path, path)

    def storage_op(self, e):
        """for a call expression on the storage API: (kind, cell, key_expr, value_expr)"""
        if e.op != "call" or e.info not in STORAGE_OPS:
            return None
        kind, ci, ki, vi = STORAGE_OPS[e.info]
        cell = self.cell_of(e.args[ci]) if ci is not None else e.info
        key = e.args[ki] if ki is not None and ki < len(e.args) else None
        val = e.args[vi] if vi is not None and vi < len(e.args) else None
        return (kind, cell, key, val)

    # ------------------------------------------------------------------ identity labels
    def label(self, e, depth=0):
        """canonical label of the source this value is an unmodified copy of, or None"""
        k = id(e)
        if k in self._label_memo:
            return self._label_memo[k][1]
        r = self._label(e, depth)
        self._label_memo[k] = (e, r)
        return r

    def save_and_return(self):
        """{fn path: cell}: workspace functions whose every Ok result is the very value they saved to a single-value cell (e.g. the
        hub's resync): right after the call the function's result IS the stored value, so it is labelled like a load"""
        if getattr(self, "_sar", None) is None:
            self._sar = {}
            w = self.w
            for b in self.prog.fn_bodies():
                if b.kind == "closure":
                    continue
                be = w.be(b)
                ws = [(cell, w.ident(val, expand_ws=False)) for (bb, kind, cell, key, val, e) in self.storage_sites(be)
                      if kind == "write" and key is None and cell is not None and val is not None]
                if len(ws) != 1:
                    continue
                rets = [x for (bb, idx, kind, x) in self.ret_sites(be) if kind == "ok"]
                if rets and all(x.op == "adt" and x.args and w.ident(x.args[0], expand_ws=False) == ws[0][1] for x in rets) and \
                        not [1 for (bb, idx, kind, x) in self.ret_sites(be) if kind in ("call", "libcall", "unknown")]:
                    self._sar[b.path] = ws[0][0]
        return self._sar

    def _label(self, e, depth):
        if depth > 12:
            return None
        w = self.w
        x0 = w.ident(e, expand_ws=False)
        c0 = x0.args[0] if x0.op == "proj" and x0.info == "ok" else x0
        if c0.op == "call" and w.callee_body(c0) is not None and c0.info in self.save_and_return():
            return ("stored", self.save_and_return()[c0.info], None, ())
        if x0.op == "field":
            bl0 = self.label(x0.args[0], depth + 1)
            if bl0 is not None and bl0[0] == "stored" and bl0[1] in self.save_and_return().values():
                return bl0[:-1] + (bl0[-1] + (x0.info[0],),)
        e = w.ident(e)
        op = e.op
        if op == "field":
            name = e.info[0]
            base = e.args[0]
            bl = self.label(base, depth + 1)
            if bl is None:
                return None
            if bl[0] == "param":
                ty = bl[3]
                if "MessageInfo" in ty and not bl[4]:
                    if name == "sender":
                        return ("sender",)
                    return ("info", name)
                if ty.endswith("cosmwasm_std::Env") or "cosmwasm_std::Env" in ty:
                    return ("env",) + bl[4] + (name,)
                return bl[:4] + (bl[4] + (name,),)
            if bl[0] == "env":
                r = bl + (name,)
                if r == ("env", "contract", "address"):
                    return ("self",)
                return r
            if bl[0] in ("stored", "query", "msg", "balance", "upvar", "info"):
                return bl[:-1] + (bl[-1] + (name,),)
            return None
        if op == "param":
            return ("param", e.info[0], e.info[2] or str(e.info[1]), e.info[3], ())
        if op == "upvar":
            return ("upvar", e.info[0], e.info[2] or str(e.info[1]), ())
        if op == "const":
            return ("const",) + tuple(e.info[:2])
        if op == "call" and e.info == "std::ops::Index::index" and e.args:
            bl = self.label(e.args[0], depth + 1)
            if bl and bl[0] in ("info", "stored", "query", "param"):
                return bl[:-1] + (bl[-1] + ("[]",),)
            return None
        if op == "call":
            so = self.storage_op(e)
            if so and so[0] == "read":
                kl = self.label(so[2], depth + 1) if so[2] is not None else None
                return ("stored", so[1], kl, ())
            if e.info == "cosmwasm_std::QuerierWrapper::query" and len(e.args) >= 2:
                q = self.smart_query(e.args[1])
                if q:
                    return ("query", q[0], q[1], q[2], ())
            if e.info == "cosmwasm_std::QuerierWrapper::query_balance" and len(e.args) >= 3:
                return ("balance", self.label(e.args[1], depth + 1), self.label(e.args[2], depth + 1), ())
            if e.info in ("cosmwasm_std::Decimal::one", "cosmwasm_std::Decimal::zero", "cosmwasm_std::Uint128::zero",
                          "cosmwasm_bignumber::Uint256::zero", "cosmwasm_bignumber::Decimal256::zero"):
                return ("const", "lib", e.info.split("::")[-2] + "::" + e.info.split("::")[-1])
            return None
        if op == "adt" and not e.args:
            return ("const", "variant", "%s::%s" % (e.info[0], e.info[1]))
        if op == "elem":
            bl = self.label(e.args[0], depth + 1)
            if bl and bl[0] in ("info", "stored", "query", "param"):
                return bl[:-1] + (bl[-1] + ("[]",),)
        return None

    def smart_query(self, req):
        """QueryRequest::Wasm(WasmQuery::Smart{contract_addr, msg}) -> (target label, msg adt, variant)"""
        req = self.w.ident(req)
        if req.op == "adt" and req.info[0].endswith("QueryRequest") and req.info[1] == "Wasm":
            inner = self.w.ident(req.args[0])
            if inner.op == "adt" and inner.info[0].endswith("WasmQuery") and inner.info[1] == "Smart":
                fields = dict(zip(inner.info[2], inner.args))
                tgt = self.label(fields["contract_addr"])
                payload = self.payload(fields["msg"])
                if payload is not None and payload.op == "adt":
                    return (tgt, payload.info[0], payload.info[1])
                return (tgt, None, None)
        return None

    def payload(self, e):
        """the value serialised by to_json_binary(&x)? -> x"""
        e = self.w.ident(e)
        if e.op == "call" and e.info in ("cosmwasm_std::to_json_binary", "cosmwasm_std::to_json_vec", "cosmwasm_std::to_binary"):
            return self.w.ident(e.args[0])
        if e.op == "adt":
            return e  # to_json_vec is identity-preserving: already stripped
        return None

    # ------------------------------------------------------------------ exits (A1)
    def classify_ret(self, e):
        """classify a returned Result expression: list of (kind, expr) with kind in
        ok | err | call (delegation to workspace fn) | libcall | unknown"""
        out = []
        seen = set()

        def go(x):
            if id(x) in seen:
                return
            seen.add(id(x))
            if x.op == "phi":
                for a in x.args:
                    go(a)
            elif x.op == "adt" and x.info[0].endswith("::Result"):
                out.append(("ok" if x.info[1] == "Ok" else "err", x))
            elif x.op == "call":
                if x.info.endswith("FromResidual::from_residual"):
                    out.append(("err", x))
                elif self.w.callee_body(x) is not None:
                    out.append(("call", x))
                elif x.info in ("std::result::Result::map_err",):
                    go(x.args[0])
                else:
                    out.append(("libcall", x))
            elif x.op == "rec":
                pass
            else:
                out.append(("unknown", x))
        go(e)
        return out

    def ret_sites(self, be):
        """[(bb, idx, kind, expr)] for every definition of _0 (the return place)"""
        out = []
        for d in be.defs_by_local.get(0, []):
            if d.path:
                continue
            v = be.def_value(d)
            for kind, x in self.classify_ret(v):
                out.append((d.bb, d.idx, kind, x))
        return out

    # ------------------------------------------------------------------ edge facts (A2)
    def edge_facts(self, be, bb):
        """for a switch block: {succ: [fact,...]}; facts:
           ('cmp', op, a, b) | ('variant', x, name) | ('truth', x, bool)
        plus, for a variant / truth fact on the result of a workspace helper, the facts that hold whenever the helper returns
        that variant (Some / Ok / true), with the call's arguments substituted (helper_facts)"""
        k = (id(be), bb)
        memo = self.__dict__.setdefault("_ef_memo", {})
        if k in memo:
            return memo[k][1]
        base = self._edge_facts(be, bb)
        out = {}
        for succ, fl in base.items():
            ext = list(fl)
            for f in fl:
                for g in self.derived_facts(f):
                    if g not in ext:
                        ext.append(g)
            out[succ] = ext
        memo[k] = (be, out)
        return out

    def derived_facts(self, f, depth=0):
        w = self.w
        if depth > 2:
            return []
        want = None
        if f[0] == "variant" and f[2] in ("Some", "Ok"):
            want, x = f[2], w.ident(f[1], expand_ws=False)
        elif f[0] == "truth" and f[2] is True:
            want, x = "true", w.ident(f[1], expand_ws=False)
        if f[0] == "variant" and f[1].op == "proj":
            # a tag handed out by a classifier (`match Origin::identify(..)? { Some(Origin::BSeiToken) => ..`): the facts that hold on
            # every path of the classifier to the construction of that tag, below the Ok / Some wrappers it is returned in
            chain = [f[2]]
            y = f[1]
            while y.op == "proj" and y.info in ("some", "ok") and y.args:
                chain.append("Some" if y.info == "some" else "Ok")
                y = y.args[0]
            y = w.ident(y, expand_ws=False)
            if len(chain) > 1 and y.op == "call":
                b = w.callee_body(y)
                if b is not None and b.is_fn():
                    out = []
                    for g in self.tag_facts(b, tuple(reversed(chain))):
                        out.append(tuple(w.subst_params(t, b, list(y.args)) if isinstance(t, E) else t for t in g))
                    return out
            if want is None:
                return []
        if f[0] == "truth" and f[1].op == "proj" and f[1].info == "ok" and f[1].args and f[1].args[0].op == "call":
            x = f[1]
            # `if !config.is_owner(api, &sender)? { return Err }`: a workspace helper returning Ok(<comparison>): the comparison itself, over
            # the call's arguments
            c = x.args[0]
            b = w.callee_body(c)
            if b is not None and b.is_fn():
                alts = w._ok_alts(w.ret_expr(b), "ok", 0, False) or []
                if len(alts) == 1:
                    g = self._norm_bool(w.ident(alts[0], expand_ws=False), f[2])
                    if g[0] == "cmp" or (g[0] == "truth" and g[1] is not alts[0]):
                        return [tuple(w.subst_params(t, b, list(c.args)) if isinstance(t, E) else t for t in g)]
            return []
        if want is None or x.op != "call":
            return []
        b = w.callee_body(x)
        if b is None and want in ("Some", "Ok", "true"):
            # a library combinator tested in place (`if let Some(h) = read(..).ok().filter(|h| h.released)`, `if m.map_or(false, |x| ..)`)
            return [g for g in self.value_facts(x, want) if g != f]
        if b is None or not b.is_fn():
            return []
        out = []
        for g in self.helper_facts(b, want):
            out.append(tuple(w.subst_params(t, b, list(x.args)) if isinstance(t, E) else t for t in g))
        return out

    def value_facts(self, x, want, depth=0):
        """facts implied by the Option / Result / bool expression x being Some / Ok / true (library combinators looked through)"""
        w = self.w
        x = w.ident(x, expand_ws=False)
        if depth > 6 or x.op != "call":
            return []
        if w.callee_body(x) is not None:
            f = ("variant", x, want) if want in ("Some", "Ok") else ("truth", x, True)
            return [f] + self.derived_facts(f, 1)
        nm = x.info
        if nm == "std::option::Option::filter" and want == "Some" and len(x.args) == 2 and x.args[1].op == "closure":
            out = self.value_facts(x.args[0], "Some", depth + 1)
            pb = self.prog.bodies.get(x.args[1].info)
            if pb is not None:
                from .iters import true_facts
                payload = w.ident(E("proj", (x.args[0],), "some"), expand_ws=False)
                for g in true_facts(self, pb):
                    out.append(tuple(w.subst_params(t, pb, [None, payload], upvars=list(x.args[1].args)) if isinstance(t, E) else t for t in g))
            return out
        if want == "true" and nm in ("std::option::Option::map_or", "std::option::Option::is_some_and") and x.args[-1].op == "closure" and \
                (nm.endswith("is_some_and") or (x.args[1].op == "const" and x.args[1].info[0] == "scalar" and not x.args[1].info[1])):
            # `opt.map_or(false, |v| p(v))` / `opt.is_some_and(p)` is true: opt is Some and p holds for its payload
            out = [("variant", x.args[0], "Some")] + self.value_facts(x.args[0], "Some", depth + 1)
            pb = self.prog.bodies.get(x.args[-1].info)
            if pb is not None:
                from .iters import true_facts
                payload = w.ident(E("proj", (x.args[0],), "some"), expand_ws=False)
                for g in true_facts(self, pb):
                    out.append(tuple(w.subst_params(t, pb, [None, payload], upvars=list(x.args[-1].args)) if isinstance(t, E) else t for t in g))
            return out
        if nm == "std::result::Result::ok" and want == "Some":
            return [("variant", x.args[0], "Ok")] + self.value_facts(x.args[0], "Ok", depth + 1)
        if nm in ("std::option::Option::ok_or", "std::option::Option::ok_or_else") and want == "Ok":
            return [("variant", x.args[0], "Some")] + self.value_facts(x.args[0], "Some", depth + 1)
        return []

    def tag_facts(self, body, path):
        """facts that hold on every path of `body` to the construction of the value it returns as path[0](path[1](..path[-1])),
        e.g. ('Ok', 'Some', 'BSeiToken'); [] when the constructions cannot all be located"""
        memo = self.__dict__.setdefault("_tf_memo", {})
        k = (body.path, path)
        if k in memo:
            return memo[k]
        memo[k] = []
        w = self.w
        be = w.be(body)
        cfg = be.cfg

        def sites(x, i, depth=0):
            x = w.ident(x, expand_ws=False)
            if depth > 12:
                return None
            if x.op == "phi":
                out = []
                for a in x.args:
                    r = sites(a, i, depth + 1)
                    if r is None:
                        return None
                    out.extend(r)
                return out
            if x.op == "call" and x.info.endswith("from_residual"):
                return []
            if x.op != "adt":
                return None
            if x.info[1] != path[i]:
                return []
            if i == len(path) - 1:
                return [x.site[1]] if x.site is not None and x.site[0] == body.path else None
            return sites(x.args[0], i + 1, depth + 1) if x.args else []
        ts = sites(w.ret_expr(body), 0)
        if not ts:
            return []
        common = None
        for t in ts:
            fs = []
            for blk in body.blocks:
                if blk.cleanup or blk.term.kind != "switch" or blk.idx not in cfg.live or len(cfg.succ[blk.idx]) < 2:
                    continue
                for succ, fl in self.edge_facts(be, blk.idx).items():
                    if t not in cfg.reach([0], removed={(blk.idx, succ)}):
                        fs.extend(fl)
            common = fs if common is None else [g for g in common if g in fs]
        memo[k] = common or []
        return memo[k]

    def helper_facts(self, body, want):
        """facts that hold on every path of workspace function `body` to a return of Some(..) / Ok(..) / true (in its own terms)"""
        memo = self.__dict__.setdefault("_hf_memo", {})
        k = (body.path, want)
        if k in memo:
            return memo[k]
        memo[k] = []
        w = self.w
        be = w.be(body)
        cfg = be.cfg
        sites = []
        for d in be.defs_by_local.get(0, []):
            if d.path or d.bb not in cfg.live:
                continue
            v = w.ident(be.def_value(d), expand_ws=False)
            for a in (v.args if v.op == "phi" else (v,)):
                if want in ("Some", "Ok"):
                    if a.op == "adt" and a.info[1] == want and a.info[0].split("::")[-1] in ("Option", "Result"):
                        sites.append(d.bb)
                    elif a.op not in ("adt",) and not (a.op == "call" and a.info.endswith("from_residual")):
                        sites.append(None)   # an opaque result: nothing can be said
                else:
                    if a.op == "call" and w.callee_body(a) is None and a.info in ("std::option::Option::map_or", "std::option::Option::is_some_and"):
                        sites.append(None)   # a combinator: what its being true implies (value_facts)
                    elif not (a.op == "const" and a.info[0] == "scalar" and a.info[1] == 0):
                        sites.append(d.bb)
        if None in sites:
            # the result is an expression (combinators): what its being Some / Ok / true implies
            vals = []
            for d in be.defs_by_local.get(0, []):
                if not d.path and d.bb in cfg.live:
                    vals.append(w.ident(be.def_value(d), expand_ws=False))
            if len(vals) == 1 and vals[0].op != "phi":
                memo[k] = self.value_facts(vals[0], want)
                return memo[k]
            return []
        if not sites:
            return []
        common = None
        for t in sites:
            fs = []
            for blk in body.blocks:
                if blk.cleanup or blk.term.kind != "switch" or blk.idx not in cfg.live or len(cfg.succ[blk.idx]) < 2:
                    continue
                for succ, fl in self.edge_facts(be, blk.idx).items():
                    if t not in cfg.reach([0], removed={(blk.idx, succ)}):
                        fs.extend(fl)
            common = fs if common is None else [g for g in common if g in fs]
        memo[k] = common or []
        return memo[k]

    def _edge_facts(self, be, bb):
        blk = be.body.blocks[bb]
        t = blk.term
        if t.kind != "switch":
            return {}
        e = be.ev_operand(bb, len(blk.stmts), t.discr)
        out = {}
        targets = [(v, tg) for v, tg in t.arms] + [(None, t.otherwise)]
        if e.op == "discr":
            x = e.args[0]
            adt = e.info
            taken = set()
            for v, tg in t.arms:
                nm = self.prog.variant_by_discr(adt, v)
                taken.add(nm)
                out.setdefault(tg, []).append(self._norm_variant(x, nm))
            a = self.prog.adt(adt)
            if a:
                rest = [vv["name"] for vv in a["variants"] if vv["name"] not in taken]
                if len(rest) == 1:
                    out.setdefault(t.otherwise, []).append(self._norm_variant(x, rest[0]))
            return out
        # boolean switch: arms [(0, F)] otherwise T
        neg = False
        x = e
        while x.op == "un" and x.info == "Not":
            neg = not neg
            x = x.args[0]
        for v, tg in targets:
            if v is None:
                truth = True
            elif v == 0:
                truth = False
            else:
                truth = True
            if neg:
                truth = not truth
            out.setdefault(tg, []).append(self._norm_bool(x, truth))
        return out

    def _norm_variant(self, x, name):
        if x.op == "call" and x.info.endswith("Try::branch"):
            inner = x.args[0]
            if inner.op == "call" and inner.info == "std::result::Result::ok" and len(inner.args) == 1:
                # `read(..).ok()?` in a function returning Option: continuing means the Result was Ok
                inner = inner.args[0]
            return ("variant", inner, "Ok" if name == "Continue" else "Err")
        return ("variant", x, name)

    NEG = {"Eq": "Ne", "Ne": "Eq", "Lt": "Ge", "Ge": "Lt", "Gt": "Le", "Le": "Gt"}

    def _norm_bool(self, x, truth, depth=0):
        if x.op == "phi" and depth < 4:
            # a bool computed on several paths (`let ok = match o { Some(v) => v == w, None => false };`): the constant
            # alternatives that contradict the observed truth are ruled out; a single remaining alternative is what was observed
            # (a constant alternative that AGREES with the observed truth rules nothing out: the flag may owe its value to it)
            rest = [a for a in x.args if not (a.op == "const" and a.info[0] == "scalar" and bool(a.info[1]) != truth)]
            if len(rest) == 1 and len(rest) < len(x.args) and rest[0].op != "const":
                return self._norm_bool(self.w.ident(rest[0], expand_ws=False), truth, depth + 1)
        if x.op == "bin" and x.info in self.NEG:
            op = x.info if truth else self.NEG[x.info]
            a, b = x.args
            # normalise Gt/Ge to Lt/Le with swapped operands
            if op == "Gt":
                op, a, b = "Lt", b, a
            elif op == "Ge":
                op, a, b = "Le", b, a
            return ("cmp", op, a, b)
        if x.op == "call" and x.info == "std::option::Option::is_none":
            return ("truth", E("call", x.args, "std::option::Option::is_some"), not truth)
        if x.op == "call" and depth < 4:
            # a workspace predicate helper (pure fn returning the comparison itself): the fact is the helper's own comparison
            # over the call's arguments
            b = self.w.callee_body(x)
            if b is not None and b.is_fn() and b.local_tys[0] == "bool" and self.w.is_pure(b):
                r = self.w.ident(self.w.expand(x), expand_ws=False)
                neg = False
                while r.op == "un" and r.info == "Not":
                    neg = not neg
                    r = self.w.ident(r.args[0], expand_ws=False)
                if r.op == "bin" and r.info in self.NEG:
                    return self._norm_bool(r, truth != neg, depth + 1)
        return ("truth", x, truth)

    # ------------------------------------------------------------------ A9 abstract values
    def aval(self, e, env, depth=0):
        """abstract value under env: ('enum', variant, payload) | ('int', n) | None"""
        if depth > 40:
            return None
        if e in env:
            return env[e]
        op = e.op
        if op == "const" and e.info[0] == "scalar":
            return ("int", e.info[1])
        if op == "adt" and e.info[1]:
            return ("enum", e.info[1], tuple(self.aval(a, env, depth + 1) for a in e.args), e.info[0])
        if op == "adt" and e.args:
            # a struct literal some of whose fields are constants (`BurnReceipt { token: UnbondType::StSei, .. }` handed to a helper)
            pl = tuple(self.aval(a, env, depth + 1) for a in e.args)
            if any(x is not None for x in pl):
                return ("enum", e.info[0].rsplit("::", 1)[-1], pl, e.info[0])
            return None
        if op == "discr":
            v = self.aval(e.args[0], env, depth + 1)
            if v and v[0] == "enum":
                adt = e.info
                d = self.prog.variant_discr(adt, v[1])
                if d is not None:
                    return ("int", d)
            return None
        if op == "bin" and e.info in ("Eq", "Ne"):
            a = self.aval(e.args[0], env, depth + 1)
            b = self.aval(e.args[1], env, depth + 1)
            if a and b and a[0] == b[0] == "enum":
                if a[1] != b[1]:
                    r = False
                elif not a[2] and not b[2]:
                    r = True
                elif len(a[2]) == len(b[2]) and all(x is not None and y is not None and x[0] == y[0] == "int" for x, y in zip(a[2], b[2])):
                    r = all(x[1] == y[1] for x, y in zip(a[2], b[2]))   # e.g. paused == Some(true)
                else:
                    return None
                return ("int", int(r if e.info == "Eq" else not r))
            if a and b and a[0] == b[0] == "int":
                r = a[1] == b[1]
                return ("int", int(r if e.info == "Eq" else not r))
            return None
        if op == "un" and e.info == "Not":
            a = self.aval(e.args[0], env, depth + 1)
            if a and a[0] == "int":
                return ("int", 0 if a[1] else 1)
            return None
        if op == "phi":
            vs = [self.aval(a, env, depth + 1) for a in e.args]
            if vs and all(v is not None and v == vs[0] for v in vs):
                return vs[0]
            return None
        if op == "proj":
            v = self.aval(e.args[0], env, depth + 1)
            if v and v[0] == "enum" and v[2] and ((e.info == "some" and v[1] == "Some") or (e.info == "ok" and v[1] == "Ok")):
                return v[2][0]
            return None
        if op == "field":
            v = self.aval(e.args[0], env, depth + 1)
            if v and v[0] == "enum" and (e.info[2] == v[1] or not e.info[2]):
                if e.info[0].isdigit():
                    return v[2][int(e.info[0])] if int(e.info[0]) < len(v[2]) else None
                a = self.prog.adt(v[3]) if len(v) > 3 else None
                if a:
                    for vv in a["variants"]:
                        if vv["name"] == v[1]:
                            names = [f["name"] for f in vv["fields"]]
                            if e.info[0] in names and names.index(e.info[0]) < len(v[2]):
                                return v[2][names.index(e.info[0])]
            return None
        if op == "call":
            k = e.info
            if k in ("std::option::Option::is_some", "std::option::Option::is_none"):
                v = self.aval(e.args[0], env, depth + 1)
                if v and v[0] == "enum":
                    r = (v[1] == "Some") == (k.endswith("is_some"))
                    return ("int", int(r))
                return None
            if k in ("std::option::Option::unwrap", "std::option::Option::unwrap_or", "std::option::Option::unwrap_or_default"):
                v = self.aval(e.args[0], env, depth + 1)
                if v and v[0] == "enum":
                    if v[1] == "Some":
                        return v[2][0] if v[2] else None
                    if k.endswith("unwrap_or") and len(e.args) > 1:
                        return self.aval(e.args[1], env, depth + 1)
                return None
            if k in IDENT_ARG and len(e.args) > IDENT_ARG[k]:
                return self.aval(e.args[IDENT_ARG[k]], env, depth + 1)
            # a workspace function whose result is a constant once its constant arguments are known (a classifier such as
            # `PauseRule::of(&msg)` for a known message variant): evaluate its return value under the specialised paths
            b = self.prog.bodies.get(k)
            if b is not None and b.is_fn() and depth < 6 and len(e.args) == b.arg_count:
                penv = {}
                for i, a in enumerate(e.args, 1):
                    v = self.aval(a, env, depth + 1)
                    if v is not None:
                        penv[E("param", (), (b.path, i, b.name_of(i), b.local_tys[i]))] = v
                if penv:
                    memo = self.__dict__.setdefault("_aval_call_memo", {})
                    mk = (b.path, tuple(sorted((repr(x), repr(y)) for x, y in penv.items())))
                    if mk not in memo:
                        memo[mk] = None
                        removed = frozenset(self.feasible_removed(self.w.be(b), penv))
                        r = self.w.ret_expr(b, removed)
                        memo[mk] = self.aval(r, penv, depth + 1)
                    return memo[mk]
        return None

    def arg_specialisation(self, body, args):
        """infeasible edges of `body` when called with `args`: only constant enum / integer arguments count"""
        env = {}
        for i, a in enumerate(args, 1):
            if a is None or i > body.arg_count:
                continue
            x = self.w.ident(a, expand_ws=False)
            if x.op == "adt" and x.info[1] and not x.args:
                v = self.aval(x, {})
            elif x.op == "const" and x.info[0] == "scalar":
                v = self.aval(x, {})
            else:
                v = None
            if v is not None:
                env[E("param", (), (body.path, i, body.name_of(i), body.local_tys[i]))] = v
        if not env:
            return frozenset()
        return frozenset(self.feasible_removed(self.w.be(body), env))

    def feasible_removed(self, be, env):
        """edges (src,dst) infeasible under env"""
        removed = set()
        if not env:
            return removed
        for blk in be.body.blocks:
            if blk.cleanup or blk.idx not in be.cfg.live or blk.term.kind != "switch":
                continue
            t = blk.term
            e = be.ev_operand(blk.idx, len(blk.stmts), t.discr)
            v = self.aval(e, env)
            if v and v[0] == "int":
                tgt = t.otherwise
                for val, tg in t.arms:
                    if val == v[1]:
                        tgt = tg
                for s in be.cfg.succ[blk.idx]:
                    if s != tgt:
                        removed.add((blk.idx, s))
        return removed

    # ------------------------------------------------------------------ messages (A6)
    def message_sites(self, be):
        """[(bb, idx, expr)] for every construction of a CosmosMsg payload enum"""
        out = []
        for blk in be.body.blocks:
            if blk.cleanup or blk.idx not in be.cfg.live:
                continue
            for i, s in enumerate(blk.stmts):
                if s.kind == "assign" and s.rv.kind == "agg" and s.rv.j.get("adt") in MSG_ADTS:
                    out.append((blk.idx, i, be.ev_rvalue(blk.idx, i, s.rv)))
        return out

    def storage_sites(self, be):
        """[(bb, kind, cell, key, val, expr)] for storage API calls in this body"""
        out = []
        for blk in be.body.calls():
            if blk.idx not in be.cfg.live:
                continue
            e = be.ev_call(blk.idx, blk.term)
            so = self.storage_op(e)
            if so:
                out.append((blk.idx,) + so + (e,))
        return out

    # ------------------------------------------------------------------ written values
    def synthetic_load(self, cell, key=None):
        """the value currently stored in `cell` (at `key` for maps), as the load an update closure is applied to"""
        if key is not None:
            return E("call", [E("cell", (), cell), UNKNOWN, key], "cw_storage_plus::Map::load")
        return E("call", [E("cell", (), cell), UNKNOWN], "cw_storage_plus::Item::load")

    def written_value(self, kind, cell, val, expand_ws=True, key=None):
        """the value a storage write stores, as an expression (alternatives merged by phi):
        for save: the saved value; for update: the closure's Ok result applied to the
        currently stored value"""
        w = self.w
        if kind == "write":
            return w.ident(val, 0, expand_ws) if val is not None else None
        if kind == "update":
            clo = w.ident(val)
            if clo.op != "closure":
                return None
            res = w.apply_closure(clo, [self.synthetic_load(cell, key)])
            alts = w._ok_alts(res, "ok", 0, True)
            if not alts:
                return None
            return w.ident(mk_phi(alts))
        return None

    def field_of(self, e, name, expand_ws=True):
        return self.w.ident(simplify(E("field", (e,), (name, "", ""))), 0, expand_ws)

    def some_of(self, e):
        return self.w.ident(simplify(E("proj", (e,), "some")))

    def labels(self, e):
        """set of labels over the alternatives of e (workspace calls expanded); None stands for an unlabelled alternative"""
        i = self.w.ident(e)
        out = set()
        for a in (i.args if i.op == "phi" else (i,)):
            out.add(self.label(a))
        return out

    def label_nd(self, e):
        """label ignoring default alternatives (DEFAULT / explicit zero of a missing entry)"""
        from .expr import DEFAULT
        i = self.w.ident(e)
        if i.op != "phi":
            l = self.label(i)
            if l is None and i.op == "call" and self.w.callee_body(i) is not None:
                l = self.label(E("proj", (i,), "ok"))
            return l
        labs = []
        for a in i.args:
            if a == DEFAULT:
                continue
            l = self.label(a)
            if l is None and a.op == "call" and self.w.callee_body(a) is not None:
                l = self.label(E("proj", (a,), "ok"))
            if l is not None and l[0] == "const" and l[1] == "lib" and l[2].endswith("::zero"):
                continue
            if l not in labs:
                labs.append(l)
        return labs[0] if len(labs) == 1 else None
