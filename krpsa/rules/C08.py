"""C08 - unbonding time-lock and forward-only batch lifecycle (DESIGN 6, C08)."""
from ..callgraph import explore, storage_effects, site_guarded, written_value_in
from ..ledger import lost_updates
from ..expr import show, find, arith_args
from .common import entry, msg_enum, variant_env, stored, where
from .hub_common import (receive_handlers, subtree, release_loops, release_guard_preds, history_readers, history_writers,
                         HUBCFG, PARAMS, STATE, BATCH, HISTORY)


def _through_wrapper(world, x, readers):
    """`wrapper(..)!some.f` -> `reader(..)!ok.f` when the workspace function `wrapper` merely filters what a history reader returns:
    one-step expansion of the wrapper call, the readers themselves stay unexpanded"""
    from ..expr import E, simplify
    if x.op == "field" and x.args[0].op == "proj" and x.args[0].args[0].op == "call":
        c = x.args[0].args[0]
        if c.info not in readers and world.callee_body(c) is not None:
            inner = world.ident(E("proj", (world.expand(c),), x.args[0].info), expand_ws=False)
            return world.ident(simplify(E("field", (inner,), x.info)), expand_ws=False)
    return x


def roll_over_fns(sem, vs):
    """functions that create a history entry with released = false (by calling the history writer)"""
    out = {}
    writers = history_writers(sem, vs)
    for v in vs:
        if v.body.kind == "closure" or v.body.path in writers:
            continue
        for blk in v.body.calls():
            if blk.idx not in v.blocks:
                continue
            e = v.be.ev_call(blk.idx, blk.term)
            if e.op == "call" and e.info in writers:
                pay = sem.payload(e.args[2]) if len(e.args) > 2 else None
                if pay is None and len(e.args) > 2:
                    pay = sem.w.ident(e.args[2])
                if pay is not None and pay.op == "adt" and "released" in pay.info[2]:
                    r = dict(zip(pay.info[2], pay.args))["released"]
                    if r.op == "const" and r.info[:2] == ("scalar", 0):
                        out.setdefault(v.body.path, []).append((v, blk.idx, pay))
    return out


def run(prog, world, sem, rep):
    rep.rule("C08.a", "the batch roll-over (the function creating a history entry with released = false) is called only through the true-edge of "
             "the strict test (Env.block.time - State.last_unbonded_time) > Parameters.epoch_period", 1)
    rep.rule("C08.b", "a history entry is stored with released = true only when it exists, its time <= now - Parameters.unbonding_period, and it "
             "was read as not released (all in-loop effects of the releasing loop are behind these three observations)", 3)
    rep.rule("C08.g", "a handler that can save the rolled-over batch id saves the rolled-over batch: wherever the value written to CURRENT_BATCH can carry "
             "the roll-over's id + 1, each of requested_bsei_with_fee / requested_stsei written with it can be the roll-over's reset value (a writer "
             "that copies back only some fields leaves the closed batch's requests pending)", 1)
    rep.rule("C08.c", "CurrentBatch.id only ever changes by the roll-over's +1 (every writer of CURRENT_BATCH outside instantiate preserves it or "
             "stores the rolled-over value); the roll-over sets State.last_unbonded_time := Env.block.time and records the same time in the history entry it creates", 3)
    rep.rule("C08.d", "the history map has exactly two kinds of reachable writers: the roll-over (new key = CurrentBatch.id, released = false) and the "
             "releaser, which rewrites the key it just read with released = true and its amounts/applied rates/time unchanged; "
             "State.last_processed_batch is only assigned that key", 6)
    rep.rule("C08.e", "the applied exchange rates and initial withdraw rates recorded in the history entry are the State.X_exchange_rate values that "
             "multiply CurrentBatch.requested_X in the undelegated amount, and the pools are reduced by exactly those products", 6)

    rep.rule("C08.f", "no lost update of the hub's single-value cells (State, CurrentBatch, Parameters, Config): in every execute variant a value "
             "saved to such a cell that was computed from an earlier load has no other write of that cell - directly or inside a callee - "
             "between the load and the save (a stale write-back would undo the release cursor, the batch id or the recorded balance)", 12)

    vs, recv, handlers = receive_handlers(prog, sem)
    ro = roll_over_fns(sem, vs)
    if len(ro) != 1:
        rep.ob("C08.a", "roll-over function", False, "anchor-lost: functions creating unreleased history entries: %s" % sorted(ro))
        return
    ro_path = list(ro)[0]
    ro_body = prog.body(ro_path)
    # ---------------------------------------------------------------- C08.a
    n = 0
    for v in vs:
        if v.body.path != ro_path:
            continue
        n += 1
        caller, bb = v.parent

        def fp(f, resolve):
            if f[0] == "cmp" and f[1] == "Lt":
                a = world.norm(resolve(f[2]))
                b = world.norm(resolve(f[3]))
                # epoch < now - last   or the equivalent   last + epoch < now   (strict in both spellings)
                if sem.label(a) == stored(PARAMS, "epoch_period") and b.op == "bin" and b.info == "Sub":
                    return sem.label(b.args[0]) == ("env", "block", "time") and sem.label(b.args[1]) == stored(STATE, "last_unbonded_time")
                if sem.label(b) == ("env", "block", "time") and a.op == "bin" and a.info == "Add":
                    return {sem.label(x) for x in a.args} == {stored(PARAMS, "epoch_period"), stored(STATE, "last_unbonded_time")}
            return False
        g, d = site_guarded(sem, caller, bb, fp)
        rep.ob("C08.a", "roll-over call in %s" % caller.body.path, g,
               "roll-over reachable without (now - last_unbonded_time) > epoch_period: %s" % d if not g else d, where(caller.body, bb),
               key="C08.a | %s" % caller.body.path, fkey="roll-over call site under Receive")
    if n == 0:
        rep.ob("C08.a", "roll-over call sites", False, "anchor-lost: roll-over never called under Receive")

    # ---------------------------------------------------------------- C08.c
    k = [i for i in range(ro_body.arg_count) if ro_body.local_tys[i + 1].endswith("basset::hub::State")]
    ok = False
    det = "no &mut State parameter in the roll-over"
    if k:
        out = world.ident(world.out_expr(ro_body, k[0]))
        lt = sem.label(sem.field_of(out, "last_unbonded_time"))
        ok = lt == ("env", "block", "time")
        det = "last_unbonded_time' = %s" % (lt,)
    rep.ob("C08.c", "roll-over records its time", ok, det, where(ro_body))
    ex = entry(prog, "hub")
    adt_path, adt = msg_enum(prog, ex)
    # the +1 may be computed by the roll-over itself or by a function / method it calls
    ro_paths = {ro_path}
    for rv0 in [v for v in vs if v.body.path == ro_path]:
        ro_paths |= {x.body.path for x in subtree(vs, rv0)}
    for vn in [x["name"] for x in adt["variants"]]:
        vv = vs if vn == "Receive" else explore(sem, ex, variant_env(prog, ex, vn))
        for (v, bb, kind, cell, key, val, e) in storage_effects(sem, vv):
            if cell != BATCH or kind not in ("write", "update", "remove"):
                continue
            wv = written_value_in(sem, vv, v, kind, cell, val)
            idv = world.ident(sem.field_of(wv, "id")) if wv is not None else None
            alts = (idv.args if idv.op == "phi" else (idv,)) if idv is not None else (None,)
            bad = []
            for a in alts:
                if a is None:
                    bad.append("unknown")
                    continue
                if sem.label(a) == stored(BATCH, "id"):
                    continue
                if a.op == "bin" and a.info == "Add" and any(x.op == "const" and x.info[:2] == ("scalar", 1) for x in a.args) and \
                        any(sem.label(x) == stored(BATCH, "id") for x in a.args) and a.site and a.site[0] in ro_paths:
                    continue
                bad.append(show(a, 3))
            rep.ob("C08.c", "hub::%s CURRENT_BATCH.id in %s" % (vn, v.body.path), not bad,
                   "batch id written with %s" % bad if bad else "id preserved or rolled over by +1", where(v.body, bb),
                   key="C08.c | hub::%s | %s" % (vn, v.body.path), fkey="hub::%s CURRENT_BATCH.id" % vn)
            # C08.g: a writer that can store the rolled-over id stores the rolled-over batch: both request totals can be the reset value
            rolled = [a for a in alts if a is not None and a.op == "bin" and a.info == "Add" and a.site and a.site[0] in ro_paths]
            if rolled and v.body.path not in ro_paths:
                stale = []
                for req in ("requested_bsei_with_fee", "requested_stsei"):
                    rv_ = world.ident(sem.field_of(wv, req))
                    ra = rv_.args if rv_.op == "phi" else (rv_,)

                    def is_reset(x):
                        x = world.ident(x)
                        return (x.op == "call" and x.info.endswith("::zero")) or (x.op == "const" and x.info[0] == "scalar" and x.info[1] == 0)
                    if not any(is_reset(x) for x in ra):
                        stale.append("%s := %s" % (req, show(rv_, 3)))
                rep.ob("C08.g", "hub::%s saves the rolled-over batch whole (%s)" % (vn, v.body.path), not stale,
                       "the batch id can be saved rolled over while %s keeps the closed batch's requests: they are valued and undelegated again with the next batch "
                       "and stay in the rate's denominator" % "; ".join(stale) if stale else "id and both request totals come from the rolled-over batch",
                       where(v.body, bb), key="C08.g | hub::%s | %s" % (vn, v.body.path), fkey="hub::%s" % vn)

    # ---------------------------------------------------------------- C08.e (roll-over body, function-local terms)
    entries = ro[ro_path]
    v0, bb0, pay = entries[0]
    d = dict(zip(pay.info[2], pay.args))

    def plab(x):
        l = sem.label(x)
        return l[4] if l is not None and l[0] == "param" else None
    # the time-lock counts from the entry's own undelegation: History.time is the time of this roll-over
    tl = sem.label(d["time"]) if "time" in d else None
    rep.ob("C08.c", "history entry time = Env.block.time of the roll-over", tl == ("env", "block", "time"),
           "History.time recorded from %s (the unbonding period must count from this undelegation)" % (tl if tl is not None else show(d.get("time"), 3),), where(ro_body, bb0))
    for tk, req in (("bsei", "requested_bsei_with_fee"), ("stsei", "requested_stsei")):
        rate = ("%s_exchange_rate" % tk,)
        ok = plab(d["%s_applied_exchange_rate" % tk]) == rate and plab(d["%s_withdraw_rate" % tk]) == rate
        rep.ob("C08.e", "%s rates recorded = State.%s_exchange_rate" % (tk, tk), ok,
               "applied %s, withdraw %s" % (plab(d["%s_applied_exchange_rate" % tk]), plab(d["%s_withdraw_rate" % tk])), where(ro_body, bb0))
        okk = plab(d["%s_amount" % tk]) == (req,)
        rep.ob("C08.e", "%s amount recorded = CurrentBatch.%s" % (tk, req), okk, "recorded %s" % (plab(d["%s_amount" % tk]),), where(ro_body, bb0))
    # pools reduced by requested_X x rate_X
    if k:
        out = world.ident(world.out_expr(ro_body, k[0]))
        for tk, req in (("bsei", "requested_bsei_with_fee"), ("stsei", "requested_stsei")):
            tv = world.norm(sem.field_of(out, "total_bond_%s_amount" % tk))
            ok = False
            det = show(tv, 4)
            if arith_args(tv, "Sub") is not None:
                a, b = arith_args(tv, "Sub")
                if plab(a) == ("total_bond_%s_amount" % tk,) and b.op == "bin" and b.info == "Mul":
                    ls = {plab(x) for x in b.args}
                    ok = ls == {(req,), ("%s_exchange_rate" % tk,)}
            rep.ob("C08.e", "%s pool reduced by requested x recorded rate" % tk, ok, det, where(ro_body))

    # ---------------------------------------------------------------- C08.b / C08.d (withdraw path)
    wvs = explore(sem, ex, variant_env(prog, ex, "WithdrawUnbonded"))
    readers = history_readers(sem, wvs)
    writers = history_writers(sem, wvs)
    loops = release_loops(sem, wvs)
    rel = []
    for (lv, rbb, key, body_calls) in loops:
        wcalls = [b for b in body_calls if (lambda e: e.op == "call" and e.info in writers)(lv.be.ev_call(b, lv.body.blocks[b].term))]
        if wcalls:
            rel.append((lv, rbb, key, body_calls, wcalls))
    if len(rel) != 1:
        rep.ob("C08.b", "releasing loop", False, "anchor-lost: expected one loop that rewrites history entries, found %d" % len(rel))
        return
    lv, rbb, key, body_calls, wcalls = rel[0]
    preds = release_guard_preds(sem, lv, key, readers)
    for name, fp in preds.items():
        bad = []
        for b in body_calls:
            g, dd = site_guarded(sem, lv, b, fp)
            if not g and lv.parent is not None:
                # the guard must be in the loop's own function
                pass
            be = lv.be
            pe = set()
            for blk in lv.body.blocks:
                if blk.term.kind == "switch" and blk.idx in be.cfg.live:
                    for succ, fl in sem.edge_facts(be, blk.idx).items():
                        if any(fp(f, lv.resolve) for f in fl):
                            pe.add((blk.idx, succ))
            # per-iteration: the body is unreachable from the reader call without the pass edge
            if b in be.cfg.reach([rbb], removed=pe | set(lv.removed)):
                bad.append("line %d" % lv.body.blocks[b].term.line)
        rep.ob("C08.b", "release only if entry %s" % name, not bad,
               "in-loop effects reachable within an iteration without observing `%s`: %s" % (name, bad) if bad else "every in-loop call behind the observation",
               where(lv.body, rbb), key="C08.b | %s" % name)

    # C08.d: writers and what the releaser changes
    all_w = set()
    for vn in [x["name"] for x in adt["variants"]]:
        vv = vs if vn == "Receive" else (wvs if vn == "WithdrawUnbonded" else explore(sem, ex, variant_env(prog, ex, vn)))
        for (v, bb, kind, cell, kk, val, e) in storage_effects(sem, vv):
            if cell == HISTORY and kind in ("write", "update", "remove"):
                caller = v.parent[0].body.path if v.parent else v.body.path
                all_w.add((vn, caller, kind))
    expect = {("Receive", ro_path, "write"), ("WithdrawUnbonded", lv.body.path, "write")}
    rep.ob("C08.d", "history writers", all_w == expect, "history writers %s" % sorted(all_w) if all_w != expect else "roll-over and releaser only", where(ex))
    wb = wcalls[0]
    we = lv.be.ev_call(wb, lv.body.blocks[wb].term)
    kid = world.ident(key, expand_ws=False)
    rep.ob("C08.d", "releaser rewrites the key it read", world.ident(we.args[1], expand_ws=False) == kid,
           "written key %s, read key %s" % (show(we.args[1], 3), show(key, 3)), where(lv.body, wb))
    hv = world.ident(we.args[2], expand_ws=False)
    okf = hv.op == "adt"
    bad = []
    if okf:
        dd = dict(zip(hv.info[2], hv.args))
        for f, x in dd.items():
            xi = world.ident(x, expand_ws=False)
            if f == "released":
                if not (xi.op == "const" and xi.info[:2] == ("scalar", 1)):
                    bad.append("released := %s" % show(xi, 2))
            elif f.endswith("_withdraw_rate"):
                continue
            else:
                same = False
                # (the entry may have been read through a wrapper around the reader: second attempt with workspace calls expanded)
                for src in (xi, _through_wrapper(world, xi, readers)):
                    base = src.args[0] if src.op == "field" else None
                    for _ in range(4):
                        if base is not None and base.op == "proj" and base.args:
                            base = world.ident(base.args[0], expand_ws=False)
                        elif base is not None and base.op == "call" and base.info == "std::result::Result::ok" and len(base.args) == 1:
                            base = world.ident(base.args[0], expand_ws=False)
                        else:
                            break
                    same = same or (src.op == "field" and src.info[0] == f and base is not None and base.op == "call"
                                    and base.info in readers and world.ident(base.args[1], expand_ws=False) == kid)
                if not same:
                    bad.append("%s := %s" % (f, show(xi, 3)))
    rep.ob("C08.d", "releaser changes only released and the withdraw rates", okf and not bad, "; ".join(bad) if bad else "other fields copied from the entry read", where(lv.body, wb))
    # roll-over creates at key CurrentBatch.id
    e0 = v0.be.ev_call(bb0, v0.body.blocks[bb0].term)
    kl = sem.label(e0.args[1])
    rep.ob("C08.d", "roll-over creates the entry at key CurrentBatch.id", kl is not None and kl[0] == "param" and kl[4] == ("id",), "key %s" % (kl,), where(ro_body, bb0))
    # last_processed_batch only assigned the released key
    sw = [(v, bb, kind, val) for (v, bb, kind, cell, kk, val, e) in storage_effects(sem, wvs) if cell == STATE and kind in ("write", "update")]
    bad = []
    n_lp = 0
    for (v, bb, kind, val) in sw:
        wv = written_value_in(sem, wvs, v, kind, STATE, val)
        # the value may reach the save through the return value of the releasing function: workspace calls are expanded, and an
        # alternative is accepted by where it was computed (the releasing loop), not by where it is saved
        lp = world.ident(sem.field_of(wv, "last_processed_batch")) if wv is not None else None
        kalts = (kid.args if kid.op == "phi" else (kid,)) + (kid,)
        for a in ((lp.args if lp.op == "phi" else (lp,)) if lp is not None else (None,)):
            n_lp += 1
            in_loop_fn = v.body.path == lv.body.path or (a is not None and a.site is not None and a.site[0] == lv.body.path)
            if a is None:
                bad.append("unknown")
            elif sem.label(a) == stored(STATE, "last_processed_batch"):
                continue
            elif in_loop_fn and (world.ident(a, expand_ws=False) in kalts or a in kalts):
                continue
            elif in_loop_fn and a.op == "bin" and a.info == "Add":
                continue  # the iterator value (key alternatives are sums from last_processed_batch + 1)
            else:
                bad.append(show(a, 3))
    rep.ob("C08.d", "State.last_processed_batch is only advanced to a released key", n_lp > 0 and not bad, "assigned %s" % bad if bad else "preserved or set to the loop key", where(lv.body))
    rep.ob("C08.d", "withdrawal path never touches CURRENT_BATCH", not [1 for (v, bb, kind, cell, kk, val, e) in storage_effects(sem, wvs) if cell == BATCH and kind != "read"],
           "CURRENT_BATCH written on the withdraw path", where(lv.body))
    # sibling note (not a property clause)
    rep.note("sibling note: the WithdrawableUnbonded query compares time < t where the execute path uses time <= t")

    # ---------------------------------------------------------------- C08.f lost updates (all hub variants)
    ex = entry(prog, "hub")
    adt_path, adt = msg_enum(prog, ex)
    for vn in [x["name"] for x in adt["variants"]]:
        vv = vs if vn == "Receive" else (wvs if vn == "WithdrawUnbonded" else explore(sem, ex, variant_env(prog, ex, vn)))
        lu = lost_updates(sem, storage_effects(sem, vv))
        det = "every saved single-value cell is computed from a load with no write in between"
        if lu:
            (sv, sbb, A, lbb, wv_, wbb, cell) = lu[0]
            det = "%s saved at %s is computed from the load at line %d of %s, but %s writes the same cell in between (%s): the save writes the stale copy back" % (
                cell.split("::")[-1], where(sv.body, sbb), A.body.blocks[lbb].term.line, A.body.path, wv_.body.path, where(wv_.body, wbb))
        rep.ob("C08.f", "hub::%s saves no stale copy of a single-value cell" % vn, not lu, det, where(ex), key="C08.f | hub::%s" % vn)
