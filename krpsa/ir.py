"""Load the MIR fact files produced by driver/ (krp-facts) into light-weight objects.

Nothing here interprets the program; it only gives names to what the extractor wrote:
Program -> Crate -> Body -> Block -> Stmt/Term, Place, Operand.
"""
import json
import os
import re

WORKSPACE_CRATES = [
    "basset", "basset_sei_hub", "basset_sei_reward", "basset_sei_rewards_dispatcher",
    "basset_sei_token_bsei", "basset_sei_token_stsei", "basset_sei_validators_registry",
    "cosmwasm_bignumber", "cw20_legacy", "signed_integer",
]


class Place:
    __slots__ = ("local", "proj")

    def __init__(self, j):
        self.local = j["l"]
        self.proj = tuple(tuple(p) for p in j["p"])

    def is_local(self):
        return not self.proj

    def key(self):
        """(local, field-path) with derefs/downcasts dropped: the abstract location."""
        return (self.local, self.fpath())

    def fpath(self):
        out = []
        for p in self.proj:
            if p[0] == "f":
                out.append(p[2])
            elif p[0] in ("i", "ci", "sub"):
                out.append("[]")
        return tuple(out)

    def fields(self):
        """list of (name, owner_adt, variant) for field projections"""
        return [(p[2], p[3], p[4]) for p in self.proj if p[0] == "f"]

    def has_deref(self):
        return any(p[0] == "*" for p in self.proj)

    def __repr__(self):
        s = "_%d" % self.local
        for p in self.proj:
            if p[0] == "*":
                s = "(*%s)" % s
            elif p[0] == "f":
                s = "%s.%s" % (s, p[2])
            elif p[0] == "d":
                s = "(%s as %s)" % (s, p[1])
            elif p[0] == "i":
                s = "%s[_%d]" % (s, p[1])
            elif p[0] == "ci":
                s = "%s[%s%d]" % (s, "-" if p[2] else "", p[1])
            else:
                s = "%s.<%s>" % (s, p[0])
        return s


class Operand:
    __slots__ = ("kind", "place", "j")

    def __init__(self, j):
        self.j = j
        self.kind = j["k"]  # copy | move | const | rtc
        self.place = Place(j["pl"]) if "pl" in j else None

    def is_const(self):
        return self.kind == "const"

    def const_scalar(self):
        if self.kind == "const" and "scalar" in self.j:
            return int(self.j["scalar"])
        return None

    def const_str(self):
        return self.j.get("str") if self.kind == "const" else None

    def const_item(self):
        return self.j.get("item") if self.kind == "const" else None

    def const_static(self):
        return self.j.get("static") if self.kind == "const" else None

    def promoted(self):
        return self.j.get("promoted") if self.kind == "const" else None

    def fn(self):
        return self.j.get("fn") if self.kind == "const" else None

    def ty(self):
        return self.j.get("ty")

    def __repr__(self):
        if self.kind in ("copy", "move"):
            return "%s %r" % (self.kind, self.place)
        j = self.j
        if "scalar" in j:
            return "const %s_%s" % (j["scalar"], j["ty"].split("::")[-1])
        if "str" in j:
            return "const %r" % j["str"]
        if "item" in j:
            return "const {%s}" % j["item"]
        if "static" in j:
            return "const &static {%s}" % j["static"]
        if "promoted" in j:
            return "const promoted[%d]" % j["promoted"]
        if "fn" in j:
            return "const fn %s" % j["fn"]["path"]
        if "zst" in j:
            return "const ZST<%s>" % j["ty"]
        return "const ?<%s>" % j.get("ty")


class Rvalue:
    __slots__ = ("kind", "j", "ops", "place")

    def __init__(self, j):
        self.j = j
        self.kind = j["k"]
        self.place = Place(j["pl"]) if "pl" in j else None
        if self.kind in ("use", "repeat", "cast"):
            self.ops = [Operand(j["op"])]
        elif self.kind == "bin":
            self.ops = [Operand(j["a"]), Operand(j["b"])]
        elif self.kind == "un":
            self.ops = [Operand(j["a"])]
        elif self.kind == "agg":
            self.ops = [Operand(o) for o in j["ops"]]
        else:
            self.ops = []

    def __repr__(self):
        k = self.kind
        if k == "use":
            return repr(self.ops[0])
        if k == "ref":
            return "&%s%r" % ("mut " if self.j["mut"] else "", self.place)
        if k == "rawptr":
            return "&raw %r" % self.place
        if k == "bin":
            return "%s(%r, %r)" % (self.j["op"], self.ops[0], self.ops[1])
        if k == "un":
            return "%s(%r)" % (self.j["op"], self.ops[0])
        if k == "cast":
            return "%r as %s [%s]" % (self.ops[0], self.j["ty"], self.j["ck"])
        if k == "discr":
            return "discriminant(%r)" % self.place
        if k == "agg":
            j = self.j
            if "adt" in j:
                name = j["adt"] + ("::" + j["variant"] if j.get("is_enum") else "")
                return "%s { %s }" % (name, ", ".join("%s: %r" % (f, o) for f, o in zip(j["fields"], self.ops)))
            if "closure" in j:
                return "closure<%s>(%s)" % (j["closure"], ", ".join(map(repr, self.ops)))
            if j.get("tuple"):
                return "(%s)" % ", ".join(map(repr, self.ops))
            if j.get("array"):
                return "[%s]" % ", ".join(map(repr, self.ops))
            return "agg?(%s)" % ", ".join(map(repr, self.ops))
        if k == "repeat":
            return "[%r; n]" % self.ops[0]
        return "other(%s)" % self.j.get("dbg", "")[:60]


class Stmt:
    __slots__ = ("kind", "place", "rv", "line", "mac", "j")

    def __init__(self, j):
        self.j = j
        self.kind = j["k"]  # assign | setdiscr
        self.place = Place(j["pl"])
        self.rv = Rvalue(j["rv"]) if "rv" in j else None
        self.line, self.mac = j["sp"]

    def __repr__(self):
        if self.kind == "assign":
            return "%r = %r" % (self.place, self.rv)
        return "discriminant(%r) = %s" % (self.place, self.j["variant"])


class Callee:
    __slots__ = ("path", "dpath", "full", "orig", "orig_full", "trait", "name", "krate", "local", "is_closure", "kind", "gargs", "j")

    def __init__(self, j):
        self.j = j
        self.path = j["path"]
        self.dpath = j.get("dpath", self.path)
        self.full = j.get("full", self.path)
        self.orig = j.get("orig", self.path)
        self.orig_full = j.get("orig_full", self.path)
        self.trait = j.get("trait", "")
        self.name = j.get("name", "")
        self.krate = j.get("krate", "")
        self.local = j.get("local", False)
        self.is_closure = j.get("is_closure", False)
        self.kind = j.get("kind", "indirect")
        self.gargs = j.get("gargs", [])

    def __repr__(self):
        return self.full


class Term:
    __slots__ = ("kind", "j", "line", "mac", "callee", "args", "dest", "target", "unwind",
                 "discr", "arms", "otherwise", "place", "cond", "expected", "fline")

    def __init__(self, j, sp):
        self.j = j
        self.kind = j["k"]
        self.line, self.mac = sp
        self.callee = None
        self.args = []
        self.dest = None
        self.target = j.get("target")
        self.unwind = j.get("unwind")
        self.discr = None
        self.arms = []
        self.otherwise = None
        self.place = None
        self.cond = None
        self.expected = None
        self.fline = None
        if self.kind == "call":
            self.callee = Callee(j["callee"])
            self.args = [Operand(a) for a in j["args"]]
            self.dest = Place(j["dest"])
            self.fline = j["fsp"][0]
        elif self.kind == "switch":
            self.discr = Operand(j["discr"])
            self.arms = [(int(v), t) for v, t in j["arms"]]
            self.otherwise = j["otherwise"]
        elif self.kind == "drop":
            self.place = Place(j["pl"])
        elif self.kind == "assert":
            self.cond = Operand(j["cond"])
            self.expected = j["expected"]

    def succs(self):
        """normal (non-unwind) successors"""
        k = self.kind
        if k in ("goto", "drop", "assert"):
            return [self.target]
        if k == "call":
            return [self.target] if self.target is not None else []
        if k == "switch":
            out = []
            for _, t in self.arms:
                if t not in out:
                    out.append(t)
            if self.otherwise not in out:
                out.append(self.otherwise)
            return out
        return []

    def __repr__(self):
        k = self.kind
        if k == "call":
            return "%r = %s(%s) -> %s" % (self.dest, self.callee.full, ", ".join(map(repr, self.args)),
                                          "bb%s" % self.target if self.target is not None else "!")
        if k == "switch":
            return "switchInt(%r) -> [%s, otherwise: bb%d]" % (
                self.discr, ", ".join("%d: bb%d" % a for a in self.arms), self.otherwise)
        if k == "goto":
            return "goto -> bb%d" % self.target
        if k == "drop":
            return "drop(%r) -> bb%d" % (self.place, self.target)
        if k == "assert":
            return "assert(%r == %s) -> bb%d" % (self.cond, self.expected, self.target)
        return k


class Block:
    __slots__ = ("idx", "stmts", "term", "cleanup")

    def __init__(self, idx, j):
        self.idx = idx
        self.stmts = [Stmt(s) for s in j["stmts"]]
        self.term = Term(j["term"], j["tsp"])
        self.cleanup = j.get("cleanup", False)


class Body:
    def __init__(self, crate, j, promoted_of=None, pidx=None):
        self.crate = crate
        self.j = j
        self.promoted_of = promoted_of
        self.pidx = pidx
        if promoted_of is None:
            self.path = j["path"]
            self.kind = j["kind"]
            self.file = j["file"]
            self.line = j["line"]
            self.line_hi = j["line_hi"]
            self.derive = j["derive"]
            self.parent = j.get("parent")
            self.parent_direct = j.get("parent_direct")
            self.impl_self = j.get("impl_self")
            self.impl_trait = j.get("impl_trait")
            self.ret_ty = j.get("ret_ty") or j.get("ty")
        else:
            self.path = "%s::promoted[%d]" % (promoted_of.path, pidx)
            self.kind = "promoted"
            self.file = promoted_of.file
            self.line = promoted_of.line
            self.line_hi = promoted_of.line_hi
            self.derive = promoted_of.derive
            self.parent = promoted_of.path
            self.parent_direct = promoted_of.path
            self.impl_self = None
            self.impl_trait = None
            self.ret_ty = j["locals"][0]["ty"]
        self.arg_count = j["arg_count"]
        self.local_tys = [l["ty"] for l in j["locals"]]
        self.blocks = [Block(i, b) for i, b in enumerate(j["blocks"])]
        self.debug = []  # (name, Place|None, argidx)
        self.names = {}  # local -> name (for whole-local debug entries)
        self.upvar_names = {}  # field idx of _1 -> name (closures)
        for d in j["debug"]:
            v = d["val"]
            if "l" in v:
                pl = Place(v)
                self.debug.append((d["name"], pl, d["arg"]))
                if pl.is_local():
                    self.names.setdefault(pl.local, d["name"])
                elif pl.local == 1:
                    fs = [p for p in pl.proj if p[0] == "f"]
                    if fs:
                        self.upvar_names[fs[0][1]] = d["name"]
        self.promoted = []
        if promoted_of is None:
            self.promoted = [Body(crate, pj, self, i) for i, pj in enumerate(j.get("promoted", []))]

    def ret_is_result(self):
        return "::Result<" in (self.local_tys[0] if self.local_tys else "")

    def is_fn(self):
        return self.kind in ("fn", "method", "closure")

    def name_of(self, local):
        return self.names.get(local)

    def local_by_name(self, name):
        for l, n in self.names.items():
            if n == name:
                return l
        return None

    def calls(self):
        for b in self.blocks:
            if b.term.kind == "call" and not b.cleanup:
                yield b

    def __repr__(self):
        return "<Body %s>" % self.path


class Program:
    def __init__(self, facts_dir):
        self.dir = facts_dir
        self.crates = {}
        self.bodies = {}
        self.multi = {}  # path -> all bodies with that path (derive-generated items can share a path)
        self.adts = {}
        self.counts = {"bodies": 0, "blocks": 0, "calls": 0}
        missing = []
        for c in WORKSPACE_CRATES:
            p = os.path.join(facts_dir, c + ".json")
            if not os.path.exists(p):
                missing.append(c)
                continue
            with open(p) as f:
                j = json.load(f)
            self.crates[c] = j
            for k in self.counts:
                self.counts[k] += j["counts"][k]
            for name, a in j["adts"].items():
                if a is not None and name not in self.adts:
                    self.adts[name] = a
            for bj in j["bodies"]:
                b = Body(c, bj)
                self.multi.setdefault(b.path, []).append(b)
                if b.path not in self.bodies:
                    self.bodies[b.path] = b
        self.missing = missing
        # inherent impls written in a module other than the type's have def paths `module::<impl Type>::method`, while callee
        # paths are generic-stripped (`module::method`): rename such hand-written bodies (and their closures / promoteds) to the
        # stripped path when that is unambiguous, so that workspace calls to them resolve
        self.alias = {}
        cands = {}
        for b in list(self.bodies.values()):
            if "<impl" in b.path and not b.derive and b.kind in ("fn", "method", "closure"):
                cands.setdefault(strip_generics(b.path), []).append(b)
        for ap, bs in cands.items():
            if len(bs) == 1 and ap not in self.bodies:
                self.alias[bs[0].path] = ap
        for b in list(self.bodies.values()):
            if b.path in self.alias:
                b.raw_path = b.path
                b.path = self.alias[b.path]
                self.bodies[b.path] = b
                self.multi.setdefault(b.path, []).append(b)
            if getattr(b, "parent", None) in self.alias:
                b.parent = self.alias[b.parent]
            if getattr(b, "parent_direct", None) in self.alias:
                b.parent_direct = self.alias[b.parent_direct]

    def body(self, path):
        return self.bodies.get(path)

    def fn_bodies(self, crate=None, handwritten=True):
        for b in self.bodies.values():
            if not b.is_fn():
                continue
            if crate and b.crate != crate:
                continue
            if handwritten and b.derive:
                continue
            yield b

    def closures_of(self, body):
        return [b for b in self.bodies.values() if b.kind == "closure" and b.parent == body.path]

    def adt(self, path):
        return self.adts.get(path)

    def variant_by_discr(self, adt_path, discr):
        a = self.adts.get(adt_path)
        if not a:
            return None
        for v in a["variants"]:
            if v["discr"] == discr:
                return v["name"]
        return None

    def variant_discr(self, adt_path, name):
        a = self.adts.get(adt_path)
        if not a:
            return None
        for v in a["variants"]:
            if v["name"] == name:
                return v["discr"]
        return None


_GENERIC_RE = re.compile(r"::<[^<>]*(?:<[^<>]*(?:<[^<>]*>[^<>]*)*>[^<>]*)*>")


def strip_generics(path):
    """cw_storage_plus::Item::<'a, T>::save -> cw_storage_plus::Item::save"""
    prev = None
    while prev != path:
        prev = path
        path = _GENERIC_RE.sub("", path)
    return path
