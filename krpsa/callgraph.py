"""A6/A9: specialised reachability over the workspace call graph (closures included) and the
effect sites (storage accesses, message constructions) inside the reachable region."""
from .expr import E, find, callee_key


class Visit:
    __slots__ = ("body", "be", "env", "blocks", "via", "args", "upvars", "w", "parent", "removed")

    def __init__(self, body, be, env, blocks, via, args, upvars, w, parent=None, removed=frozenset()):
        self.parent = parent    # (parent Visit, bb of the call / closure creation) or None for the root
        self.removed = removed  # infeasible edges under env
        self.body = body
        self.be = be
        self.env = env
        self.blocks = blocks
        self.via = via  # chain of (caller path, line)
        self.args = args      # parameter values in terms of the root function (None = own params)
        self.upvars = upvars  # captured values in terms of the root function (closures)
        self.w = w

    def resolve(self, e):
        """express a value of this body in terms of the root function's parameters"""
        if e is None or (self.args is None and self.upvars is None):
            return e
        return self.w.subst_params(e, self.body, self.args or [], upvars=self.upvars)


def env_key(env):
    return tuple(sorted((repr(k), repr(v)) for k, v in env.items()))


def explore(sem, root, env=None, max_depth=12):
    """all (body, reachable blocks) visited from `root` under abstract env"""
    w = sem.w
    out = []
    seen = set()

    def go(body, env, via, depth, args=None, upvars=None, parent=None, tag=None):
        key = (body.path, env_key(env), id(parent[0]) if parent else None, parent[1] if parent else None, tag)
        if key in seen or depth > max_depth:
            return
        seen.add(key)
        removed = sem.feasible_removed(w.be(body), env)
        be = w.be_spec(body, removed)
        blocks = set(be.cfg.live)
        vis = Visit(body, be, env, blocks, via, args, upvars, w, parent, frozenset(removed))
        out.append(vis)
        # closures this body calls directly (`f(x)` on a local closure): they are visited per call site with their parameters bound,
        # like a function; closures that are only handed to library adaptors are visited once from their creation site
        direct = {}
        for bb in sorted(blocks):
            t = body.blocks[bb].term
            if t.kind == "call" and t.callee.trait and t.callee.name in ("call", "call_mut", "call_once") and \
                    _strip(t.callee.trait).rsplit("::", 1)[-1] in ("Fn", "FnMut", "FnOnce") and len(t.args) == 2:
                n = len(body.blocks[bb].stmts)
                ce = w.ident(be.ev_operand(bb, n, t.args[0]), expand_ws=False)
                if ce.op == "closure" and ce.info in w.prog.bodies:
                    direct.setdefault(ce.info, []).append((bb, ce, be.ev_operand(bb, n, t.args[1])))
        for bb in sorted(blocks):
            blk = body.blocks[bb]
            for i, s in enumerate(blk.stmts):
                if s.kind == "assign" and s.rv.kind == "agg" and "closure" in s.rv.j:
                    cb = w.prog.bodies.get(w.prog.alias.get(s.rv.j["closure"], s.rv.j["closure"]))
                    if cb is None or cb.path in direct:
                        continue
                    cenv = {}
                    caps = []
                    for n, o in enumerate(s.rv.ops):
                        ce = be.ev_operand(bb, i, o)
                        caps.append(vis.resolve(ce))
                        v = sem.aval(ce, env)
                        if v is not None:
                            cenv[E("upvar", (), (cb.path, n, cb.upvar_names.get(n)))] = v
                    aa = adaptor_args(w, vis, be, body, cb)
                    if isinstance(aa, tuple) and aa and aa[0] == "each":
                        # the adaptor walks a literal list: one visit per listed element, with the parameter bound to it
                        for n_el, al in enumerate(aa[1]):
                            go(cb, cenv, via + ((body.path, s.line),), depth + 1, al, caps, (vis, bb), tag=n_el)
                    else:
                        go(cb, cenv, via + ((body.path, s.line),), depth + 1, aa, caps, (vis, bb))
            t = blk.term
            for cpath, sites in direct.items():
                for (cbb, ce, targs) in sites:
                    if cbb != bb:
                        continue
                    cb = w.prog.bodies[cpath]
                    ta = w.ident(targs, expand_ws=False)
                    elems = list(ta.args) if ta.op == "tuple" else [targs]
                    cargs = [vis.resolve(ce)] + [vis.resolve(x) for x in elems]
                    caps = [vis.resolve(x) for x in ce.args]
                    cenv = {}
                    for n2, x in enumerate(ce.args):
                        v = sem.aval(x, env)
                        if v is not None:
                            cenv[E("upvar", (), (cb.path, n2, cb.upvar_names.get(n2)))] = v
                    go(cb, cenv, via + ((body.path, t.line),), depth + 1, cargs, caps, (vis, bb))
            if t.kind == "call":
                g = w.prog.bodies.get(_strip(t.callee.dpath)) or w.prog.bodies.get(_strip(t.callee.path))
                if g is not None and g.is_fn():
                    genv = {}
                    gargs = []
                    n = len(blk.stmts)
                    for l, a in enumerate(t.args, 1):
                        ae = be.ev_operand(bb, n, a)
                        gargs.append(vis.resolve(ae))
                        v = sem.aval(ae, env)
                        if v is not None:
                            genv[E("param", (), (g.path, l, g.name_of(l), g.local_tys[l]))] = v
                    go(g, genv, via + ((body.path, t.line),), depth + 1, gargs, None, (vis, bb))

    go(root, env or {}, (), 0)
    return out


def literal_elems(w, it):
    """elements of an iterator expression over a literal list (vec![a, b].into_iter() / [a, b].iter()), at most 8; else None"""
    from .iters import last, TRANSPARENT
    x = w.ident(it, expand_ws=False)
    for _ in range(8):
        if x.op == "call" and x.args and w.callee_body(x) is None and last(x.info) in TRANSPARENT:
            x = w.ident(x.args[0], expand_ws=False)
    if x.op == "call" and x.info == "vec!" and x.args and x.args[0].op == "array":
        x = x.args[0]
    if x.op == "array" and 0 < len(x.args) <= 8:
        return list(x.args)
    return None


def adaptor_args(w, vis, be, body, cb):
    """parameter values of a closure that is the argument of an iterator / Option / Result adaptor of `body`: the item is
    elem(receiver iterator) (krpsa.iters), the payload of an Option / Result receiver its Some / Ok / Err projection"""
    from .iters import ITEM_ADAPTORS_1, ITEM_ADAPTORS_2, last, mk_item
    for blk in body.blocks:
        t = blk.term
        if t.kind != "call" or blk.idx not in be.cfg.live or len(t.args) < 2:
            continue
        n = len(blk.stmts)
        hit = None
        for k, a in enumerate(t.args[1:], 1):
            ae = w.ident(be.ev_operand(blk.idx, n, a), expand_ws=False)
            if ae.op == "closure" and ae.info == cb.path:
                hit = k
        if hit is None:
            continue
        nm = t.callee.name
        tr = _strip(t.callee.trait or "")
        recv = vis.resolve(be.ev_operand(blk.idx, n, t.args[0]))
        if tr.endswith("iter::Iterator") or tr.endswith("iter::DoubleEndedIterator"):
            if nm in ITEM_ADAPTORS_1:
                lit = literal_elems(w, recv)
                if lit is not None and nm in ("map", "for_each", "filter", "inspect"):
                    return ("each", [[None, x] for x in lit])
                return [None, mk_item(w, recv)]
            if nm in ITEM_ADAPTORS_2 and hit == 2:
                return [None, None, mk_item(w, recv)]
        p = _strip(t.callee.path)
        if p.startswith("std::option::Option::") and nm in ("map", "and_then", "filter", "map_or", "map_or_else", "is_some_and", "inspect"):
            return [None] * hit + [E("proj", (recv,), "some")] if nm in ("map_or", "map_or_else") else [None, E("proj", (recv,), "some")]
        if p.startswith("std::result::Result::") and nm in ("map", "and_then"):
            return [None, E("proj", (recv,), "ok")]
        if p.startswith("std::result::Result::") and nm in ("map_err", "or_else", "unwrap_or_else"):
            return [None, E("proj", (recv,), "err")]
    return None


def _strip(p):
    from .ir import strip_generics
    return strip_generics(p)


def storage_effects(sem, visits):
    """[(visit, bb, kind, cell, key, val, expr)]"""
    out = []
    for v in visits:
        for (bb, kind, cell, key, val, e) in sem.storage_sites(v.be):
            if bb in v.blocks:
                if cell is None or cell.endswith(":?"):
                    so = sem.storage_op(v.resolve(e))
                    if so:
                        cell = so[1]
                out.append((v, bb, kind, cell, v.resolve(key), v.resolve(val), v.resolve(e)))
    return out


def message_effects(sem, visits):
    out = []
    for v in visits:
        for bb, i, e in sem.message_sites(v.be):
            if bb in v.blocks:
                out.append((v, bb, i, v.resolve(e)))
    return out


def call_sites(sem, visits, pred):
    """[(visit, bb, call expr)] for reachable call blocks whose callee key satisfies pred"""
    out = []
    for v in visits:
        for blk in v.body.calls():
            if blk.idx in v.blocks:
                e = v.be.ev_call(blk.idx, blk.term)
                if e.op == "call" and pred(e.info):
                    out.append((v, blk.idx, v.resolve(e)))
                elif e.op == "bin" and pred(callee_key(blk.term.callee)):
                    # operator traits are modelled as bin nodes: matched by the trait method's key
                    out.append((v, blk.idx, v.resolve(e)))
    return out


def site_guarded(sem, vis, bb, fact_pred):
    """A2 on a site: is block `bb` of visit `vis` (or, failing that, the call / closure
    creation site of `vis` in one of its callers, up to the root) unreachable from the
    function entry once the edges on which fact_pred holds are removed?
    Returns (guarded, description of the level that guards / witness path lines)."""
    level = vis
    site = bb
    chain = []
    while level is not None:
        be = level.be
        pass_edges = set()
        for blk in level.body.blocks:
            if blk.cleanup or blk.term.kind != "switch" or blk.idx not in be.cfg.live:
                continue
            for succ, fl in sem.edge_facts(be, blk.idx).items():
                if any(fact_pred(f, level.resolve) for f in fl):
                    pass_edges.add((blk.idx, succ))
        removed = set(level.removed) | pass_edges
        reach = be.cfg.reach([0], removed=removed)
        # a switch on a locally built tag (`let kind = if cond { Tag::A } else { Tag::B }; match kind { Tag::A => .. }`): the edge for
        # variant V can only be taken when V's construction site was executed, so it inherits the guard of that site
        grew = True
        while grew and site in reach:
            grew = False
            for blk in level.body.blocks:
                if blk.cleanup or blk.term.kind != "switch" or blk.idx not in be.cfg.live:
                    continue
                for succ, fl in sem.edge_facts(be, blk.idx).items():
                    if (blk.idx, succ) in removed:
                        continue
                    for f in fl:
                        if f[0] == "truth":
                            # a bool flag assigned constants on different branches (`matches!(..)`, `let ok = if c { true } else { false }`)
                            x = sem.w.ident(f[1], expand_ws=False)
                            alts = x.args if x.op == "phi" else (x,)
                            if len(alts) < 2 or not all(a.op == "const" and a.info[0] == "scalar" and a.site is not None and a.site[0] == level.body.path for a in alts):
                                continue
                            mine = [a for a in alts if bool(a.info[1]) == f[2]]
                            if mine and all(a.site[1] not in reach for a in mine):
                                pass_edges.add((blk.idx, succ))
                                removed.add((blk.idx, succ))
                                grew = True
                            continue
                        if f[0] != "variant":
                            continue
                        x = sem.w.ident(f[1], expand_ws=False)
                        alts = x.args if x.op == "phi" else (x,)
                        if not all(a.op == "adt" and not a.args and a.site is not None and a.site[0] == level.body.path for a in alts):
                            continue
                        mine = [a for a in alts if a.info[1] == f[2]]
                        if mine and all(a.site[1] not in reach for a in mine):
                            pass_edges.add((blk.idx, succ))
                            removed.add((blk.idx, succ))
                            grew = True
            if grew:
                reach = be.cfg.reach([0], removed=removed)
        if site not in reach:
            return True, "guarded in %s (%d pass edge(s))" % (level.body.path, len(pass_edges))
        # a closure fed by an iterator pipeline only ever sees items that passed the pipeline's filters: the facts that hold
        # whenever a filter's predicate returns true hold for the item
        if level.body.kind == "closure" and level.args:
            from .iters import item_source, droppers, true_facts
            for it in [a for a in level.args if a is not None and a.op == "elem"]:
                src = item_source(sem.w, it)
                for (nm, c) in (droppers(sem.w, src) if src is not None else []):
                    if nm in ("filter", "take_while") and len(c.args) > 1 and c.args[1].op == "closure" and c.args[1].info in sem.w.prog.bodies:
                        pb = sem.w.prog.bodies[c.args[1].info]
                        clo = c.args[1]

                        def res(x, pb=pb, clo=clo, it=it):
                            return sem.w.subst_params(x, pb, [None, it], upvars=list(clo.args))
                        if any(fact_pred(f, res) for f in true_facts(sem, pb)):
                            return True, "guarded by the %s predicate %s feeding %s" % (nm, pb.path, level.body.path)
        p = be.cfg.path(0, site, removed=removed) or []
        lines = []
        for b in p:
            l = level.body.blocks[b].term.line
            if l > 1 and (not lines or lines[-1] != l):
                lines.append(l)
        chain.append("%s lines %s" % (level.body.path, lines))
        if level.parent is None:
            break
        # a closure handed to `cond.then(..)` runs only when cond holds
        if level.body.kind == "closure":
            par, pbb = level.parent
            for blk in par.body.blocks:
                t = blk.term
                if t.kind != "call" or blk.idx not in par.blocks or t.callee.name != "then" or len(t.args) != 2:
                    continue
                n = len(blk.stmts)
                ce = sem.w.ident(par.be.ev_operand(blk.idx, n, t.args[1]), expand_ws=False)
                if ce.op == "closure" and ce.info == level.body.path:
                    cond = sem.w.ident(par.be.ev_operand(blk.idx, n, t.args[0]), expand_ws=False)
                    f0 = sem._norm_bool(cond, True)
                    if any(fact_pred(f, par.resolve) for f in [f0] + sem.derived_facts(f0)):
                        return True, "guarded by the condition of `.then(..)` in %s" % par.body.path
        level, site = level.parent
    return False, "unguarded path: " + " <- ".join(chain)


def always_passes(sem, vis, bb, allowed_pred, top):
    """must-pass-through, lifted: starting at block `bb` of visit `vis` and moving up the call chain to visit `top`, is every
    success exit of each level reachable only through the site (at that level: the block itself, then the call site of the level
    below), once the edges carrying a fact accepted by `allowed_pred` are removed?  Returns (ok, description)."""
    level, site = vis, bb
    while True:
        be = level.be
        allowed = set()
        for blk in level.body.blocks:
            if blk.cleanup or blk.term.kind != "switch" or blk.idx not in be.cfg.live:
                continue
            for succ, fl in sem.edge_facts(be, blk.idx).items():
                if any(allowed_pred(f, level.resolve) for f in fl):
                    allowed.add((blk.idx, succ))
        oks = [b for (b, idx, kind, x) in sem.ret_sites(be) if kind in ("ok", "call", "libcall", "unknown") and b in level.blocks]
        if not be.body.ret_is_result():
            oks = [b for b in be.cfg.exits() if b in level.blocks]
        r = be.cfg.reach([0], removed=set(level.removed) | allowed, stop={site})
        short = [b for b in oks if b in r and b != site]
        if short:
            return False, "%s can return successfully (line %s) without passing line %d, other than through the accepted edges" % (
                level.body.path, sorted({level.body.blocks[b].term.line for b in short}), level.body.blocks[site].term.line)
        if level is top or level.parent is None:
            return True, "every success exit passes the site (%d accepted edge(s) at the last level)" % len(allowed)
        level, site = level.parent


def written_value_in(sem, visits, vis, kind, cell, val, expand_ws=True):
    """like Sem.written_value but, for update(closure), evaluated inside the closure's own
    specialised visit (infeasible arms of the closure pruned by the abstract environment)"""
    w = sem.w
    if kind != "update":
        return sem.written_value(kind, cell, val, expand_ws)
    clo = w.ident(val)
    if clo.op != "closure":
        return None
    cvs = [cv for cv in visits if cv.body.path == clo.info and cv.parent is not None and cv.parent[0] is vis]
    if not cvs:
        return sem.written_value(kind, cell, val)
    from .expr import mk_phi
    vals = []
    for cv in cvs:
        for (bb, idx, k, x) in sem.ret_sites(cv.be):
            if k == "ok" and bb in cv.blocks:
                v = x.args[0]
                v = w.subst_params(v, cv.body, [None, sem.synthetic_load(cell)], upvars=cv.upvars)
                vals.append(v)
    if not vals:
        return None
    return w.ident(mk_phi(vals), 0, expand_ws)
