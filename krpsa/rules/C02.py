"""C02 - hub never books more than is delegated; bonds delegated in full: structural clauses (DESIGN 6, C02)."""
from ..callgraph import explore, storage_effects, message_effects, call_sites, written_value_in, site_guarded
from ..expr import show, find, arith_args
from ..ledger import classify
from ..iters import nth_of, item_source, droppers, drops_only_zero, base_of, strip_coll
from .common import entry, msg_enum, variant_env, stored, where, arm_handler
from .hub_common import (receive_handlers, subtree, Roles, resync_fns, early_exits, HUBCFG, PARAMS, STATE, BATCH)
from .msgs import vec_elems, wasm_execute, coin_parts
from .C08 import roll_over_fns

POOL = {"BSei": "total_bond_bsei_amount", "StSei": "total_bond_stsei_amount", "BondRewards": "total_bond_stsei_amount"}
VARIANT = {"Bond": "BSei", "BondForStSei": "StSei", "BondRewards": "BondRewards"}
REGQ = ("query", stored(HUBCFG, "validators_registry_contract"), "basset_sei_validators_registry::msg::QueryMsg", "GetValidatorsForDelegation", ())


def run(prog, world, sem, rep):
    rep.rule("C02.a", "bond books exactly the coin it delegates: for each of the three bond entry points the pool of the right token grows by the "
             "payment coin's amount (the other pool is preserved) and the delegation planner is asked to place that same amount; each "
             "Delegate pairs plan[i] with validators[i].address (same index) in the payment coin's denom", 9)
    rep.rule("C02.b", "registry-only targets: Delegate.validator comes only from the registry's GetValidatorsForDelegation answer (queried at "
             "Config.validators_registry_contract); an empty answer is an error", 4)
    rep.rule("C02.c", "undelegation books: the amount handed to the undelegation planner is the sum of exactly the two products subtracted from the "
             "pools; Undelegate messages pair planner output i with the hub's own delegation i, one for every planner entry (no early exit)", 4)
    rep.rule("C02.d", "spend-site inventory (the hub's liquid balance is only spent by WithdrawUnbonded): BankMsg::Send only on the withdraw path, "
             "StakingMsg::Delegate only on the bond path, every WasmMsg::Execute carries no funds, no other coin-moving message kinds", 15)
    rep.rule("C02.f", "the planners place everything: the hub discards the delegation planner's reported remainder, so the planners' distribution "
             "loops may leave early (other than by exhausting the validator list) only on the edge where the amount still to place was observed "
             "to be zero; a validator is passed over only by comparing its stake with the very share its entry (share - stake) is computed from", 3)
    rep.rule("C02.g", "conversion conserves the booked total: a Convert hook lowers the pool of the token received and raises the pool of the "
             "token minted by the identical coin value (one expression), so bSei pool + stSei pool is unchanged by it", 2)
    rep.rule("C02.e", "slashing first: every pricing handler calls the resync function and every write of STATE in the handler happens after it", 5)

    ex = entry(prog, "hub")
    roles = Roles(prog, sem)
    rs = resync_fns(prog, sem)
    adt_path, adt = msg_enum(prog, ex)
    variants = [x["name"] for x in adt["variants"]]
    per = {}
    for vn in variants:
        per[vn] = explore(sem, ex, variant_env(prog, ex, vn))

    # ---------------------------------------------------------------- C02.a / C02.b
    for vn, bt in VARIANT.items():
        vs = per[vn]
        h = arm_handler(sem, vs)
        eff = [x for x in storage_effects(sem, vs) if x[3] == STATE and x[2] in ("write", "update") and x[0] is h]
        ok = len(eff) == 1
        det = "STATE writes in the bond handler: %d" % len(eff)
        if ok:
            (v, bb, kind, cell, key, val, e) = eff[0]
            wv = written_value_in(sem, vs, v, kind, cell, val, False)
            bad = []
            for fld in ("total_bond_bsei_amount", "total_bond_stsei_amount"):
                c = classify(sem, STATE, sem.field_of(wv, fld, False), (fld,))
                if fld == POOL[bt]:
                    if not (c[0] == "delta" and c[1] == 1 and roles.role(c[2]) == ("payment", "amount")):
                        bad.append("%s: %s %s" % (fld, c[0], show(c[-1], 3) if c[0] != "preserved" and c[-1] is not None else ""))
                elif c[0] != "preserved":
                    bad.append("%s changed on a %s bond" % (fld, bt))
            ok = not bad
            det = "; ".join(bad) if bad else "%s += payment.amount, other pool preserved" % POOL[bt]
        rep.ob("C02.a", "hub::%s books the payment in the %s pool" % (vn, POOL[bt]), ok, det, where(h.body), key="C02.a | %s | pool" % vn)
        # planner call
        pc = call_sites(sem, vs, lambda k: k.endswith("common::calculate_delegations"))
        okp = len(pc) == 1 and roles.role(pc[0][2].args[0]) == ("payment", "amount") and sem.label(pc[0][2].args[1]) == REGQ
        rep.ob("C02.a", "hub::%s plans the delegation of the payment amount over the registry's validators" % vn, okp,
               "planner args %s" % ([show(world.norm(a, 0, False), 3) for a in pc[0][2].args] if pc else None), where(h.body), key="C02.a | %s | planner" % vn)
        # Delegate messages
        dl = [(v, bb, e) for (v, bb, i, e) in message_effects(sem, vs) if e.info[0].endswith("StakingMsg") and e.info[1] == "Delegate"]
        okd = len(dl) == 1
        det = "Delegate constructions: %d" % len(dl)
        if okd:
            v, bb, e = dl[0]
            d = dict(zip(e.info[2], e.args))
            val = world.norm(d["validator"], 0, False)
            amt, denom = coin_parts(world, sem, d["amount"])
            an = world.norm(amt, 0, False)
            vi = val.args[0] if val.op == "field" and val.info[0] == "address" else None
            okd = False
            nv = nth_of(world, vi) if vi is not None else None
            na = nth_of(world, an)
            if nv is not None and na is not None:
                # validator entry i and plan entry i of one walk (index loop, enumerate, or zip), in any of the repo's idioms
                same_idx = nv[1] == na[1]
                plan = world.norm(na[0], 0, False)
                plan_ok = plan.op == "field" and plan.info[0] == "1" and find(plan, lambda y: y.op == "call" and y.info.endswith("common::calculate_delegations"))
                vals_ok = sem.label(nv[0]) == REGQ
                okd = same_idx and bool(plan_ok) and vals_ok and roles.role(denom) == ("payment", "denom")
                det = "same position: %s, amount from the plan: %s, validator from the registry answer: %s, denom role %s" % (same_idx, bool(plan_ok), vals_ok, roles.role(denom))
                rep.ob("C02.b", "hub::%s delegates only to validators returned by the registry" % vn, vals_ok, "validator source %s" % (sem.label(nv[0]),), where(v.body, bb), key="C02.b | %s | source" % vn)
                # every plan entry becomes a Delegate: no early exit from the emitting loop / no adaptor dropping non-zero entries
                skip = no_entry_skipped(prog, world, sem, v, bb, na[1])
                rep.ob("C02.a", "hub::%s turns every plan entry into a Delegate" % vn, skip == [],
                       "the code emitting Delegate messages can skip plan entries (%s): the payment is booked in full but those shares are never delegated" % skip if skip
                       else "every entry is visited", where(v.body, bb), key="C02.a | %s | no-skip" % vn)
            else:
                det = "Delegate fields not of the form validators[i].address / plan[i]: %s" % show(world.norm(e, 0, False), 5)[:300]
        rep.ob("C02.a", "hub::%s Delegate pairs plan[i] with validators[i]" % vn, okd, det, where(h.body), key="C02.a | %s | delegate" % vn)
    # empty registry answer is an error (checked once: the handler is shared)
    vs = per["Bond"]
    h = arm_handler(sem, vs)
    pc = call_sites(sem, vs, lambda k: k.endswith("common::calculate_delegations"))
    if pc:
        def fe(f, resolve):
            return f[0] == "truth" and f[2] is False and f[1].op == "call" and f[1].info.endswith("Vec::is_empty") and sem.label(resolve(f[1].args[0])) == REGQ
        g, d = site_guarded(sem, pc[0][0], pc[0][1], fe)
        rep.ob("C02.b", "an empty registry answer is an error", g, d, where(h.body))

    # ---------------------------------------------------------------- C02.f
    # (i) the hub never uses component 0 (the unplaced remainder) of the delegation planner's result
    used = False
    for vn in VARIANT:
        for v in per[vn]:
            if v.body.crate != "basset_sei_hub":
                continue
            for blk in v.body.blocks:
                if blk.idx not in v.blocks:
                    continue
                ops = []
                for s_ in blk.stmts:
                    if s_.rv is not None and s_.rv.kind in ("agg", "bin", "un"):
                        ops.extend(o for o in s_.rv.ops if o.place is not None)
                        if s_.rv.place is not None:
                            pass
                ops.extend(a for a in blk.term.args if a.place is not None)
                if blk.term.discr is not None and blk.term.discr.place is not None:
                    ops.append(blk.term.discr)
                for o in ops:
                    try:
                        e0 = world.ident(v.be.ev_operand(blk.idx, len(blk.stmts), o), expand_ws=False)
                    except Exception:
                        continue
                    if e0.op == "field" and e0.info[0] == "0":
                        b0 = e0.args[0].args[0] if e0.args[0].op == "proj" else e0.args[0]
                        if b0.op == "call" and b0.info.endswith("common::calculate_delegations"):
                            used = True
    rep.note("hub uses the delegation planner's remainder: %s" % used)
    for pname in ("calculate_delegations", "calculate_undelegations"):
        pvs = [v for vn in ("Bond", "Receive") for v in (per[vn] if vn == "Bond" else per["Receive"]) if v.body.path.endswith("common::" + pname)]
        if not pvs:
            rep.ob("C02.f", "%s loops" % pname, False, "anchor-lost: planner %s not reached from the hub" % pname)
            continue
        pv = pvs[0]
        from ..cfg import sccs
        comps = sccs(pv.be.cfg)
        if not comps:
            # a planner written as an iterator pipeline: there is no loop to leave early; the plan must be collected from a walk
            # over the whole validator list (no adaptor that drops or cuts entries)
            from ..iters import pipeline, droppers, strip_coll, last
            cols = find(world.norm(world.ret_expr(pv.body), 0, False), lambda y: y.op == "call" and last(y.info) in ("collect", "from_iter") and y.args)
            okc = bool(cols)
            why = []
            for c in cols:
                dr = droppers(world, c.args[0])
                base = strip_coll(world, pipeline(world, c.args[0])[1])
                if dr:
                    okc = False
                    why.append("the plan is collected through %s" % [d[0] for d in dr])
                if not (base.op == "param" and base.info[1] == 2):
                    okc = False
                    why.append("the plan is not collected from a walk over the validator list (%s)" % show(base, 3))
                # conservation without a loop: the entry is capped by what is still unplaced, and what is still unplaced is
                # lowered by exactly the entry (a captured running remainder `left`: entry = min(.., left); left = left - entry)
                conserving = False
                for nm, mc in pipeline(world, c.args[0])[0]:
                    if nm != "map" or len(mc.args) < 2 or mc.args[1].op != "closure":
                        continue
                    cb = prog.bodies.get(mc.args[1].info)
                    if cb is None:
                        continue
                    cbe = world.be(cb)
                    rets = value_payloads(world, world.ret_expr(cb))
                    for blk in cb.blocks:
                        if blk.cleanup or blk.idx not in cbe.cfg.live:
                            continue
                        for i, st in enumerate(blk.stmts):
                            if st.kind != "assign" or st.j.get("pl", {}).get("p") != [["*"]]:
                                continue
                            tgt = world.ident(cbe.ev_lp(blk.idx, i, st.j["pl"]["l"], ()), expand_ws=False)
                            if tgt.op != "upvar":
                                continue
                            nv = world.ident(cbe.ev_rvalue(blk.idx, i, st.rv), expand_ws=False)
                            if nv.op == "proj":
                                nv = world.ident(nv.args[0], expand_ws=False)
                            aa = arith_args(nv, "Sub")
                            if aa is None or world.ident(aa[0], expand_ws=False) != tgt:
                                continue
                            ent = world.ident(aa[1], expand_ws=False)
                            capped = ent.op == "call" and ent.info.endswith("::min") and any(world.ident(x, expand_ws=False) == tgt for x in ent.args)
                            if capped and rets and all(r == ent for r in rets):
                                conserving = True
                if not conserving:
                    okc = False
                    why.append("the entries are not min(.., amount still unplaced) with the unplaced amount lowered by each entry: the plan need not add up to the amount")
            if cols:
                rep.ob("C02.f", "%s distributes until nothing is left" % pname, okc and (not used or pname != "calculate_delegations"),
                       "; ".join(why) if why else "no loop: the plan is collected from a walk over every validator (no dropping adaptor)", where(pv.body), key="C02.f | %s" % pname)
            else:
                rep.ob("C02.f", "%s loops" % pname, False, "anchor-lost: planner %s has neither a loop nor a collected plan" % pname, where(pv.body))
            continue
        bad = []

        def zero_left(f, resolve):
            # the amount still to place (the planner's first parameter, updated in the loop) observed zero
            if f[0] == "truth" and f[2] is True and f[1].op == "call" and f[1].info.endswith("::is_zero"):
                x = f[1].args[0]
                ps = find(x, lambda y: y.op == "param" and y.info[1] == 1)
                return bool(ps) or x.op == "rec" or bool(find(x, lambda y: y.op == "rec"))
            return False
        seen_loops = 0
        for comp in comps:
            seen_loops += 1
            ee = early_exits(sem, pv, sorted(comp)[0], zero_left)
            for (u, v_, line) in ee or []:
                bad.append("line %d" % line)
        # the loops walk the whole validator list: an iterator cut by take_while / skip / filter .. ends the walk early just like a `break`
        from ..iters import droppers as _droppers
        for blk in pv.body.calls():
            if blk.idx not in pv.blocks or not pv.be.cfg.in_loop(blk.idx):
                continue
            e_ = pv.be.ev_call(blk.idx, blk.term)
            if e_.op == "call" and e_.info.endswith("Iterator::next") and e_.args:
                it_ = world.ident(e_.args[0], expand_ws=False)
                # (the iterator variable of a `for` loop is loop-carried: its first alternative is the iterator as created)
                for src_ in (it_.args if it_.op == "phi" else (it_,)):
                    if src_.op == "out":
                        continue
                    for (nm_, c_) in _droppers(world, src_):
                        bad.append("line %d (the loop walks the validators through `%s`)" % (blk.term.line, nm_))
        # the skip test and the entry agree on the share: a validator is passed over by comparing its stake with the very value T its
        # entry T - stake is computed from (comparing with the floor share while topping up to floor + remainder coin loses that coin)
        def _core(x):
            x = world.ident(x, expand_ws=False)
            while x.op == "call" and x.info.rsplit("::", 1)[-1] in ("from", "into", "u128") and len(x.args) == 1:
                x = world.ident(x.args[0], expand_ws=False)
            return x

        def _stake(x):
            x = _core(x)
            return x if (x.op == "field" and x.info[0] == "total_delegated") else None
        subs = []
        for blk in pv.body.calls():
            if blk.idx not in pv.blocks or not pv.be.cfg.in_loop(blk.idx):
                continue
            e_ = pv.be.ev_call(blk.idx, blk.term)
            aa_ = arith_args(e_, "Sub") if e_.op in ("bin", "call") else None
            if aa_ is not None and _stake(aa_[1]) is not None and _stake(aa_[0]) is None:
                subs.append((_core(aa_[0]), _stake(aa_[1])))
        for blk in pv.body.blocks:     # ... and the same subtraction on plain integers (a MIR statement, not a call)
            if blk.cleanup or blk.idx not in pv.blocks or not pv.be.cfg.in_loop(blk.idx):
                continue
            for i_, st0 in enumerate(blk.stmts):
                if st0.kind == "assign" and st0.rv is not None and st0.rv.kind == "bin":
                    e_ = pv.be.ev_rvalue(blk.idx, i_, st0.rv)
                    if e_.op == "bin" and e_.info in ("Sub", "SubWithOverflow") and len(e_.args) == 2 and _stake(e_.args[1]) is not None and _stake(e_.args[0]) is None:
                        subs.append((_core(e_.args[0]), _stake(e_.args[1])))
        for blk in pv.body.blocks:
            if blk.cleanup or blk.term.kind != "switch" or blk.idx not in pv.blocks or not pv.be.cfg.in_loop(blk.idx):
                continue
            for succ, fl in sem.edge_facts(pv.be, blk.idx).items():
                for f in fl:
                    if f[0] != "cmp":
                        continue
                    for a_, b_ in ((f[2], f[3]), (f[3], f[2])):
                        st_ = _stake(a_)
                        if st_ is None:
                            continue
                        for (T_, d_) in subs:
                            if d_ == st_ and _core(b_) != T_ and not find(_core(b_), lambda y: y.op == "rec"):
                                msg_ = "line %d (the stake is compared with %s but the entry is %s - stake)" % (blk.term.line, show(_core(b_), 3), show(T_, 3))
                                if msg_ not in bad:
                                    bad.append(msg_)
        rep.ob("C02.f", "%s distributes until nothing is left" % pname, not bad and (not used or pname != "calculate_delegations"),
               "the distribution loop can be left at %s while an amount is still unplaced (the hub ignores the remainder): coins stay undelegated / unaccounted" % sorted(set(bad))
               if bad else "%d loop(s); early exits only when the remaining amount is zero" % seen_loops, where(pv.body), key="C02.f | %s" % pname)
    rep.ob("C02.f", "hub relies on the planner placing everything", not used, "the hub %s the planner's remainder" % ("uses" if used else "discards"), where(ex))

    # ---------------------------------------------------------------- C02.c
    vs_r, recv, handlers = receive_handlers(prog, sem)
    ro = roll_over_fns(sem, vs_r)
    if len(ro) != 1:
        rep.ob("C02.c", "roll-over", False, "anchor-lost: roll-over functions %s" % sorted(ro))
    else:
        ro_path = list(ro)[0]
        rb = prog.body(ro_path)
        rv = [v for v in vs_r if v.body.path == ro_path][0]
        k = [i for i in range(rb.arg_count) if rb.local_tys[i + 1].endswith("basset::hub::State")]
        out = world.ident(world.out_expr(rb, k[0])) if k else None
        subs = []
        for tk in ("bsei", "stsei"):
            tv = world.norm(sem.field_of(out, "total_bond_%s_amount" % tk), 0, False) if out is not None else None
            if arith_args(tv, "Sub") is not None:
                subs.append(arith_args(tv, "Sub")[1])
        # planner claim = the ws call (other than history writer) whose first non-deps argument is Add(sub1, sub2)
        okc = False
        det = "anchor-lost: no call receives the sum of the two amounts subtracted from the pools"
        claim_call = None
        for blk in rb.calls():
            e = rv.be.ev_call(blk.idx, blk.term)
            if e.op != "call" or world.callee_body(e) is None:
                continue
            for a in e.args:
                an = world.norm(a, 0, False)
                if an.op == "bin" and an.info == "Add" and len(subs) == 2 and sorted(map(repr, an.args)) == sorted(map(repr, subs)):
                    okc = True
                    claim_call = e
                    det = "%s(%s)" % (e.info, show(an, 3))
        rep.ob("C02.c", "undelegated claim = sum of the two amounts removed from the books", okc, det, where(rb))
        # inside the picker: planner + pairing
        if claim_call is not None:
            pb = world.callee_body(claim_call)
            if claim_call.info.endswith(PLANNER):
                # the planner is called by the roll-over itself (no separate picker function)
                pb, pv = rb, rv
                claim_exprs = [rv.resolve(a) for a in claim_call.args[:1]]
            else:
                pv = [v for v in vs_r if v.body.path == pb.path][0]
                claim_exprs = list(pv.args or [])
            psub = subtree(vs_r, pv)
            ud = [(v, bb, e) for (v, bb, i, e) in message_effects(sem, psub) if e.info[0].endswith("StakingMsg") and e.info[1] == "Undelegate"]
            okp = False
            ee = None
            det = "Undelegate constructions under %s: %d" % (pb.path, len(ud))
            if len(ud) == 1:
                okp, det, ee, delegator = undelegate_pairing(prog, world, sem, pv, ud[0], claim_exprs)
                if delegator is not None:
                    rep.ob("C02.c", "undelegation validators are the hub's own delegations", sem.label(delegator) == ("self",), "delegator %s" % (sem.label(delegator),), where(pb))
            rep.ob("C02.c", "Undelegate pairs planner output i with delegation i", okp, det, where(pb))
            if len(ud) == 1:
                rep.ob("C02.c", "every planner entry is turned into an Undelegate", ee == [],
                       "the code emitting Undelegate messages can skip planner entries (%s): the claim is removed from the books in full but those entries are never "
                       "undelegated" % (["line %d" % l for _, _, l in ee] if ee and isinstance(ee[0], tuple) else ee) if ee else
                       ("every entry is visited" if ee == [] else "anchor-lost: the Undelegate construction is not inside a loop"), where(ud[0][0].body, ud[0][1]))

    # ---------------------------------------------------------------- C02.d
    for vn in variants:
        bad = []
        for (v, bb, i, e) in message_effects(sem, per[vn]):
            k = "%s::%s" % (e.info[0].split("::")[-1], e.info[1])
            if k == "BankMsg::Send":
                if vn != "WithdrawUnbonded":
                    bad.append("BankMsg::Send at %s" % where(v.body, bb))
            elif k == "StakingMsg::Delegate":
                if vn not in VARIANT:
                    bad.append("StakingMsg::Delegate at %s" % where(v.body, bb))
            elif k == "WasmMsg::Execute":
                funds = dict(zip(e.info[2], e.args))["funds"]
                if vec_elems(world, funds) != []:
                    bad.append("WasmMsg::Execute with funds at %s" % where(v.body, bb))
            elif k in ("StakingMsg::Undelegate", "StakingMsg::Redelegate", "DistributionMsg::WithdrawDelegatorReward", "DistributionMsg::SetWithdrawAddress"):
                pass
            else:
                bad.append("%s at %s" % (k, where(v.body, bb)))
        rep.ob("C02.d", "hub::%s coin-moving messages" % vn, not bad, "; ".join(bad) if bad else "no spend of the liquid balance outside its designated path", where(ex), key="C02.d | hub::%s" % vn)

    # ---------------------------------------------------------------- C02.e
    pricing = [("Bond", arm_handler(sem, per["Bond"]), per["Bond"])]
    for (hooks, toks), hl in sorted(handlers.items()):
        for hv in hl:
            pricing.append(("Receive/%s/%s" % ("+".join(hooks), "+".join(toks)), hv, subtree(vs_r, hv)))
    for name, hv, vs in pricing:
        # the pricing function: the function of the handler's subtree that calls the resync directly
        # (the handler itself, or a private function it delegates to)
        def resync_calls(v):
            return [blk.idx for blk in v.body.calls() if blk.idx in v.blocks and (lambda e: e.op == "call" and e.info in rs)(v.be.ev_call(blk.idx, blk.term))]
        cands = [v for v in vs if v.body.kind != "closure" and v.body.path not in rs and resync_calls(v)]
        bad = []
        if len(cands) != 1:
            bad.append("functions calling the resync in this handler: %d" % len(cands))
        else:
            pf = cands[0]
            rcalls = resync_calls(pf)
            if len(rcalls) != 1:
                bad.append("resync calls in %s: %d" % (pf.body.path, len(rcalls)))
            else:
                rb0 = rcalls[0]
                in_resync = set(id(x) for x in vs if any(a.body.path in rs for a in _ancestors(x)))
                for v in vs:
                    if v.body.kind == "closure" or id(v) in in_resync or v.body.path in rs:
                        continue
                    for (bb, kind, cell, key, val, e) in sem.storage_sites(v.be):
                        if cell != STATE or bb not in v.blocks:
                            continue
                        # position of this access at the level of the pricing function
                        lv, lbb = v, bb
                        while lv is not pf and lv.parent is not None:
                            lv, lbb = lv.parent
                        if lv is not pf:
                            bad.append("STATE %s in %s outside the pricing function" % (kind, v.body.path))
                            continue
                        if kind in ("write", "update") and not pf.be.cfg.dominates(rb0, lbb):
                            bad.append("STATE %s at %s:%d not after the resync" % (kind, v.body.path.split("::")[-1], v.body.blocks[bb].term.line))
                        if kind == "read" and not pf.be.cfg.dominates(rb0, lbb):
                            # (a load after the resync returns what the resync just saved: load + modify + save is the same as update)
                            bad.append("STATE read at %s:%d before the resync (pricing must use the re-synchronised state)" % (v.body.path.split("::")[-1], v.body.blocks[bb].term.line))
        rep.ob("C02.e", "%s: resync before pricing and before every STATE write" % name, not bad, "; ".join(bad) if bad else "resync dominates all STATE writes; no raw STATE read", where(hv.body), key="C02.e | %s" % name)

    # ---------------------------------------------------------------- C02.g
    for name, hv, vs in pricing:
        if "/Convert/" not in name:
            continue
        src = name.rsplit("/", 1)[1]
        dst = "stsei" if src == "bsei" else "bsei"
        sw = [(v, bb, kind, val) for (v, bb, kind, cell, key, val, e) in storage_effects(sem, vs)
              if cell == STATE and kind in ("write", "update") and v.body.path not in rs and not any(a.body.path in rs for a in _ancestors(v))]
        bad = []
        if len(sw) != 1:
            bad.append("anchor-lost: %d STATE writes in the conversion outside the resync" % len(sw))
        for (v, bb, kind, val) in sw[:1]:
            wv = written_value_in(sem, vs, v, kind, STATE, val, False)
            cs = classify(sem, STATE, sem.field_of(wv, "total_bond_%s_amount" % src), ("total_bond_%s_amount" % src,))
            cd = classify(sem, STATE, sem.field_of(wv, "total_bond_%s_amount" % dst), ("total_bond_%s_amount" % dst,))
            if not (cs[0] == "delta" and cs[1] == -1 and cd[0] == "delta" and cd[1] == 1):
                bad.append("pool changes are %s (%s) and %s (%s), expected -x / +x" % (cs[:2], src, cd[:2], dst))
            elif world.norm(cs[2], 0, False) != world.norm(cd[2], 0, False):
                bad.append("the %s pool is lowered by %s but the %s pool is raised by %s: the booked total changes by the difference" % (
                    src, show(world.norm(cs[2], 0, False), 3), dst, show(world.norm(cd[2], 0, False), 3)))
        rep.ob("C02.g", "%s moves one coin value between the pools" % name, not bad, "; ".join(bad) if bad else "-x on %s, +x on %s, same x" % (src, dst),
               where(hv.body), key="C02.g | %s" % name)


def no_entry_skipped(prog, world, sem, v, bb, pos):
    """reasons why the code at block bb of visit v (emitting one message per entry of a walk) may skip entries: early exits of the
    enclosing loop towards a success exit (loop form) or adaptors that drop more than zero amounts (iterator form); [] if none"""
    if v.body.kind == "closure" and pos[0] == "item":
        src = item_source(world, pos[1])
        out = []
        for dr in (droppers(world, src) if src is not None else []):
            if not (drops_only_zero(world, prog, dr, "1") or drops_only_zero(world, prog, dr)):
                out.append("%s may drop or cut entries" % dr[0])
        return out
    ee = early_exits(sem, v, bb)
    if ee is None:
        return ["the message is not built inside a loop"]
    return ["early exit at line %d" % l for (_, _, l) in ee]


def value_payloads(world, e):
    """the values a closure returns: Ok / Some payloads and plain alternatives (error residuals dropped)"""
    e = world.ident(e, expand_ws=False)
    out = []
    for a in (e.args if e.op == "phi" else (e,)):
        a = world.ident(a, expand_ws=False)
        if a.op == "call" and a.info.endswith("from_residual"):
            continue
        if a.op == "adt" and a.info[1] in ("Ok", "Some") and a.args:
            out.append(world.ident(a.args[0], expand_ws=False))
        else:
            out.append(a)
    return out


PLANNER = "common::calculate_undelegations"


def undelegate_pairing(prog, world, sem, pv, site, claim_exprs=None):
    """The Undelegate message built under the picker `pv` pairs planner output i with entry i of the very validator list the planner was
    given, for every entry with a non-zero amount - in any of the repo's idioms (index loop, enumerate, zip; `for` loop or closure of
    an iterator adaptor; see krpsa.iters).  Returns (ok, detail, skipping reasons, delegator expression of the own-delegations query)."""
    v, bb, e = site
    d = dict(zip(e.info[2], e.args))
    val = world.norm(d["validator"], 0, False)
    amt, denom = coin_parts(world, sem, d["amount"])
    c5 = sem.label(denom) == stored(PARAMS, "underlying_coin_denom")
    addr_of = val.args[0] if val.op == "field" and val.info[0] == "address" else None
    nv = nth_of(world, addr_of) if addr_of is not None else None
    na = nth_of(world, world.norm(amt, 0, False))
    if nv is None or na is None:
        return False, "Undelegate fields are not entry i of a validator list / entry i of the planner output: %s" % show(world.norm(e, 0, False), 4)[:300], \
            ["unrecognised construction"], None
    c2 = nv[1] == na[1]
    pl = find(world.norm(na[0], 0, False), lambda y: y.op == "call" and y.info.endswith(PLANNER))
    planner = pl[0] if pl else None
    # the planner distributes the claim handed to the picker (its parameter, here in the entry point's terms) ...
    c3 = planner is not None and any(a is not None and world.norm(pv.resolve(planner.args[0]), 0, False) == world.norm(a, 0, False)
                                     for a in (claim_exprs if claim_exprs is not None else (pv.args or [])))
    # ... over the very list whose entries receive the amounts, which is the hub's own delegation list
    c6 = planner is not None and world.norm(strip_coll(world, pv.resolve(planner.args[1])), 0, False) == world.norm(strip_coll(world, nv[0]), 0, False)
    q = find(world.norm(nv[0], 0, False), lambda y: y.op == "call" and y.info.endswith("query_all_delegations"))
    c4 = bool(q)
    ee = no_entry_skipped(prog, world, sem, v, bb, na[1])
    if v.body.kind == "closure":
        # the mapped iterator must be consumed whole (extend / collect), not e.g. taken from
        par = v.parent[0] if v.parent else None
        cons = False
        if par is not None:
            for b2 in par.body.calls():
                e2 = par.be.ev_call(b2.idx, b2.term)
                nm = str(e2.info[0] if isinstance(e2.info, tuple) else e2.info).rsplit("::", 1)[-1]
                if nm in ("extend", "collect") and any(find(a0, lambda y: y.op == "closure" and y.info == v.body.path) for a0 in e2.args):
                    cons = True
        if not cons:
            ee = ee + ["the mapped iterator is not consumed by extend / collect"]
    ok = c2 and c3 and c4 and c5 and c6
    det = "amount i paired with validator i: %s, planner(claim param): %s, same list planned and indexed: %s, list from own delegations: %s, staking denom: %s" % (
        c2, c3, c6, c4, c5)
    return ok, det, ee, (q[0].args[1] if q else None)


def _ancestors(v):
    out = []
    x = v
    while x is not None:
        out.append(x)
        x = x.parent[0] if x.parent else None
    return out
