"""Structural discovery of hub handlers (shared by the hub properties)."""
from ..callgraph import explore, site_guarded, storage_effects
from .common import entry, variant_env, stored, arm_handler

HUBCFG = "basset_sei_hub::state::CONFIG"
PARAMS = "basset_sei_hub::state::PARAMETERS"
STATE = "basset_sei_hub::state::STATE"
BATCH = "basset_sei_hub::state::CURRENT_BATCH"
NEWWAIT = "bucket:basset_sei_hub::state::NEW_PREFIX_WAIT_MAP"
OLDWAIT = "bucket:basset_sei_hub::state::OLD_PREFIX_WAIT_MAP"
HISTORY = "prefixed:basset_sei_hub::state::UNBOND_HISTORY_MAP"
TOKENS = {"bsei": stored(HUBCFG, "bsei_token_contract"), "stsei": stored(HUBCFG, "stsei_token_contract")}


def subtree(visits, root):
    out = []
    for v in visits:
        x = v
        while x is not None:
            if x is root:
                out.append(v)
                break
            x = x.parent[0] if x.parent else None
    return out


def receive_handlers(prog, sem):
    """{(hook variant, token): (visits of Receive, receive visit, handler visit)} discovered from
    the facts that must hold at each delegating call site of the Receive arm"""
    ex = entry(prog, "hub")
    vs = explore(sem, ex, variant_env(prog, ex, "Receive"))
    h = arm_handler(sem, vs)
    out = {}
    for v in vs:
        if v.parent is None or v.parent[0] is not h or v.body.kind == "closure":
            continue
        bb = v.parent[1]
        hooks = []
        for hook in ("Unbond", "Convert"):
            def fh(f, resolve, hook=hook):
                if not (f[0] == "variant" and f[2] == hook):
                    return False
                x = sem.w.ident(resolve(f[1]))
                if x.op == "call" and x.info == "cosmwasm_std::from_json" and x.args:
                    l = sem.label(x.args[0])
                    return l is not None and l[0] == "param" and l[4] and l[4][-1] == "msg"
                return False
            if site_guarded(sem, h, bb, fh)[0]:
                hooks.append(hook)
        toks = []
        for tk, lab in TOKENS.items():
            def ft(f, resolve, lab=lab):
                if f[0] == "cmp" and f[1] == "Eq":
                    ls = (sem.label(resolve(f[2])), sem.label(resolve(f[3])))
                    return ("sender",) in ls and lab in ls
                return False
            if site_guarded(sem, h, bb, ft)[0]:
                toks.append(tk)
        out.setdefault((tuple(hooks), tuple(toks)), []).append(v)
    return vs, h, out


# ----------------------------------------------------------------------------------------
# withdraw path (C01, C06, C08)

def history_readers(sem, visits):
    """paths of functions that read the unbond-history map directly"""
    out = set()
    for v in visits:
        for (bb, kind, cell, key, val, e) in sem.storage_sites(v.be):
            if cell == HISTORY and kind == "read" and bb in v.blocks:
                out.add(v.body.path)
    return out


def history_writers(sem, visits):
    out = set()
    for v in visits:
        for (bb, kind, cell, key, val, e) in sem.storage_sites(v.be):
            if cell == HISTORY and kind == "write" and bb in v.blocks:
                out.add(v.body.path)
    return out


def release_loops(sem, visits):
    """loops that walk the history from State.last_processed_batch + 1:
    [(visit, reader call bb, key expr (function-local), [in-loop call blocks other than the reader])]"""
    w = sem.w
    readers = history_readers(sem, visits)
    out = []
    for v in visits:
        if v.body.kind == "closure":
            continue
        for blk in v.body.calls():
            if blk.idx not in v.blocks:
                continue
            e = v.be.ev_call(blk.idx, blk.term)
            if e.op != "call" or e.info not in readers or not v.be.cfg.in_loop(blk.idx):
                continue
            key = e.args[1]
            from ..expr import find
            kn = w.norm(v.resolve(key))
            if not find(kn, lambda y: sem.label(y) == stored(STATE, "last_processed_batch")):
                continue
            body_calls = []
            for b2 in v.body.calls():
                if b2.idx in v.blocks and b2.idx != blk.idx and v.be.cfg.in_loop(b2.idx):
                    body_calls.append(b2.idx)
            out.append((v, blk.idx, key, body_calls))
    return out


def release_guard_preds(sem, vis, key, readers):
    """the three continuation conditions of a release loop as fact predicates:
    history entry exists, entry.time <= now - unbonding_period, entry not yet released"""
    w = sem.w
    kid = w.ident(key, expand_ws=False)

    def is_entry(x, resolve=None):
        """x is read(key)!ok (the entry of this iteration)"""
        x = w.ident(x, expand_ws=False)
        if x.op == "proj":
            x = x.args[0]
        return x.op == "call" and x.info in readers and w.ident(x.args[1], expand_ws=False) == kid

    def exists(f, resolve):
        return f[0] == "variant" and f[2] == "Ok" and is_entry(f[1])

    def matured(f, resolve):
        if f[0] == "cmp" and f[1] == "Le":
            a = f[2]
            if a.op == "field" and a.info[0] == "time" and is_entry(a.args[0]):
                b = w.norm(resolve(f[3]))
                if b.op == "bin" and b.info == "Sub":
                    return sem.label(b.args[0]) == ("env", "block", "time") and sem.label(b.args[1]) == stored(PARAMS, "unbonding_period")
        return False

    def unreleased(f, resolve):
        return f[0] == "truth" and f[2] is False and f[1].op == "field" and f[1].info[0] == "released" and is_entry(f[1].args[0])

    return {"exists": exists, "time <= now - unbonding_period": matured, "not released": unreleased}
