"""C04 - no user operation dilutes holders: the one structural clause (DESIGN 6, C04)."""
from ..callgraph import explore, storage_effects, message_effects, written_value_in
from ..expr import show
from ..ledger import classify
from .common import entry, variant_env, where, arm_handler
from .hub_common import Roles, STATE, BATCH
from .C03 import token_msgs, fo, signed_terms, value_alts, RATE, POOLF, REQ
from .msgs import wasm_execute


def run(prog, world, sem, rep):
    rep.rule("C04.a", "re-bonding rewards (BondRewards, specialised by constant propagation) reaches no token Mint, raises the stSei pool by the "
             "payment on every success path, and recomputes the stSei rate over (unchanged stSei supply + pending stSei requests)", 3)
    ex = entry(prog, "hub")
    roles = Roles(prog, sem)
    vs = explore(sem, ex, variant_env(prog, ex, "BondRewards"))
    h = arm_handler(sem, vs)
    tm, others = token_msgs(world, sem, vs)
    mints = [m for tk in tm for m in tm[tk] if m[2] == "Mint"]
    anymint = []
    for (v, bb, i, m) in message_effects(sem, vs):
        r = wasm_execute(world, sem, m)
        if r and r[1] is not None and r[1].op == "adt" and r[1].info[1] == "Mint":
            anymint.append(where(v.body, bb))
    rep.ob("C04.a", "BondRewards mints nothing", not mints and not anymint, "Mint message reachable on the reward re-bond path: %s" % anymint if anymint else
           "no Mint construction reachable under bond_type = BondRewards", where(h.body))
    # positive control for the specialisation: the same handler under Bond does mint
    vs_b = explore(sem, ex, variant_env(prog, ex, "Bond"))
    tm_b, _ = token_msgs(world, sem, vs_b)
    if not [m for m in tm_b["bsei"] if m[2] == "Mint"]:
        rep.ob("C04.a", "positive control", False, "anchor-lost: specialisation control - Bond no longer reaches a bSei Mint", where(h.body))
    eff = [x for x in storage_effects(sem, vs) if x[3] == STATE and x[2] in ("write", "update") and x[0] is h]
    ok = len(eff) == 1
    det = "STATE writes in the handler: %d" % len(eff)
    ok2 = False
    det2 = det
    if ok:
        (v, bb, kind, cell, key, val, e) = eff[0]
        wv = written_value_in(sem, vs, v, kind, cell, val, False)
        c = classify(sem, STATE, sem.field_of(wv, POOLF["stsei"], False), (POOLF["stsei"],))
        cb = classify(sem, STATE, sem.field_of(wv, POOLF["bsei"], False), (POOLF["bsei"],))
        ok = c[0] == "delta" and c[1] == 1 and roles.role(c[2]) == ("payment", "amount") and cb[0] == "preserved"
        det = "stSei pool %s, bSei pool %s" % (c[:2], cb[0])
        # every success exit passes the write: no Ok exit reachable when the write block is removed
        okret = [b for (b, idx, k, x) in sem.ret_sites(h.be) if k == "ok" and b in h.blocks]
        r = h.be.cfg.reach([0], stop={bb})
        ok = ok and bool(okret) and not any(b in r and b != bb for b in okret)
        rv = fo(world, wv, RATE["stsei"])
        alts = value_alts(world, rv)
        fr = [a for a in alts if a.op == "call" and a.info.endswith("Decimal::from_ratio")]
        if len(fr) == 1:
            num, den = fr[0].args
            dn = world.ident(den, expand_ws=False)
            if dn.op == "bin" and dn.info == "Add":
                sup, req = dn.args
                terms = [(s, t) for s, t in signed_terms(world, sup) if not (t.op == "call" and t.info.endswith("::zero"))]
                ok2 = roles.role(req) == ("batch", REQ["stsei"]) and len(terms) == 1 and roles.role(terms[0][1]) == ("supply", "stsei") and \
                    world.norm(num, 0, False) == world.norm(fo(world, wv, POOLF["stsei"]), 0, False)
                det2 = "rate := (pool + payment) / (%s + %s)" % ([roles.role(t) for _, t in terms], roles.role(req))
        else:
            det2 = "stSei rate alternatives %s" % [show(a, 3) for a in alts]
    rep.ob("C04.a", "BondRewards raises the stSei pool on every success path", ok, det, where(h.body))
    rep.ob("C04.a", "BondRewards recomputes the stSei rate with unchanged supply and the pending requests", ok2, det2, where(h.body))
