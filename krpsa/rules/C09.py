"""C09 - exits do not depend on the reward plumbing: dependency closure (DESIGN 6, C09)."""
from ..xgraph import XGraph
from .common import entry, where

EXIT_ENTRIES = (
    [("hub", "execute", v) for v in ("Bond", "BondForStSei", "Receive", "WithdrawUnbonded", "CheckSlashing")] +
    [("reward", "execute", v) for v in ("ClaimRewards", "IncreaseBalance", "DecreaseBalance")]
)

FORBIDDEN_NODES = {("dispatcher", "execute", "SwapToRewardDenom"), ("dispatcher", "execute", "DispatchRewards"), ("reward", "execute", "SwapToRewardDenom")}

# allowed contacts of the exit closure: (source contract, edge kind, target contract, variant)
ALLOWED = {
    ("bsei", "query", "hub", "Config"), ("bsei", "query", "dispatcher", "Config"),
    ("bsei", "execute", "reward", "IncreaseBalance"), ("bsei", "execute", "reward", "DecreaseBalance"),
    ("bsei", "execute", "hub", "CheckSlashing"), ("bsei", "execute", "hub", "Receive"),
    ("stsei", "execute", "hub", "CheckSlashing"), ("stsei", "execute", "hub", "Receive"),
    ("hub", "query", "bsei", "TokenInfo"), ("hub", "query", "stsei", "TokenInfo"),
    ("hub", "execute", "bsei", "Mint"), ("hub", "execute", "bsei", "Burn"),
    ("hub", "execute", "stsei", "Mint"), ("hub", "execute", "stsei", "Burn"),
    ("hub", "query", "registry", "GetValidatorsForDelegation"),
    ("reward", "query", "hub", "Config"),
}


def run(prog, world, sem, rep):
    rep.rule("C09.a", "dependency closure: from the exit entry points (hub bond / unbond / convert / withdraw / slashing check, every message of both "
             "tokens, reward claim and balance mirroring) the transitive closure over execute and smart-query edges contains no swap or oracle "
             "contract, no dispatcher swap / dispatch and no reward swap node; every cross-contract edge of the closure is in the allowed table", 29)
    rep.rule("C09.c", "positive control: the same closure started at hub UpdateGlobalIndex does reach the external swap and oracle contracts", 1)
    g = XGraph(prog, world, sem)
    starts = list(EXIT_ENTRIES)
    for c in ("bsei", "stsei"):
        for v in g.variants(c, "execute"):
            starts.append((c, "execute", v))
    for s in starts:
        c, kind, var = s
        if var not in g.variants(c, kind):
            rep.ob("C09.a", "%s::%s" % (c, var), False, "anchor-lost: exit entry point %s::%s does not exist" % (c, var))
            continue
        seen, edges = g.closure([s])
        bad = []
        for n in seen:
            if n in FORBIDDEN_NODES:
                bad.append("reaches %s::%s" % (n[0], n[2]))
            if n[0] in ("EXT:swap", "EXT:oracle"):
                bad.append("reaches the external %s contract (%s)" % (n[0][4:], n[2]))
        for (src, (ek, tgt, pv, pt, wh)) in edges:
            if ek == "unresolved-variant":
                bad.append("message %s::%s has no receiving variant" % (tgt, pv))
                continue
            k = (src[0], ek, tgt, pv)
            if k not in ALLOWED:
                bad.append("new dependency %s --%s--> %s::%s at %s" % (src[0], ek, tgt, pv, wh))
        rep.ob("C09.a", "%s::%s closure" % (c, var), not bad, "; ".join(sorted(set(bad))) if bad else
               "closure of %d node(s), %d edge(s), all allowed" % (len(seen), len(edges)), where(entry(prog, c, kind)), key="C09.a | %s::%s" % (c, var))
    seen, edges = g.closure([("hub", "execute", "UpdateGlobalIndex")])
    ext = {n[0] for n in seen if n[0].startswith("EXT:")}
    rep.ob("C09.c", "control: reward distribution reaches swap and oracle", {"EXT:swap", "EXT:oracle"} <= ext, "external contacts of UpdateGlobalIndex: %s" % sorted(ext), where(entry(prog, "hub")))
    rep.extra["edge_table"] = sorted({"%s --%s--> %s::%s" % (src[0], ek, tgt, pv) for s in starts for (src, (ek, tgt, pv, pt, wh)) in g.closure([s])[1]})
