"""A2/A3: interprocedural must-pass-through analysis.

unguarded(body, env, args) answers: is there a path from the entry of `body` to a success
exit (transitively through delegating calls) that avoids every *pass edge* - an edge on
which the guard was observed to hold?  Paths are explored on the CFG specialised by the
abstract environment `env` (A9).  A `?` on a call to a workspace function whose every
success exit is itself guarded makes the Continue edge a pass edge (helper-guard idiom).
"""
from .expr import E


class GuardAnalysis:
    def __init__(self, sem, pass_fact, max_depth=8):
        self.sem = sem
        self.w = sem.w
        self.pass_fact = pass_fact  # f(fact, resolve) -> bool
        self.max_depth = max_depth
        self.stats = {"functions": set(), "pass_edges": 0, "success_sites": 0, "switches": 0}
        self._memo = {}

    def param_exprs(self, body):
        be = self.w.be(body)
        out = []
        for l in range(1, body.arg_count + 1):
            out.append(E("param", (), (body.path, l, body.name_of(l), body.local_tys[l])))
        return out

    def callee_env(self, g, x_args, env):
        genv = {}
        pe = self.param_exprs(g)
        for p, a in zip(pe, x_args):
            v = self.sem.aval(a, env)
            if v is not None:
                genv[p] = v
        return genv

    def unguarded(self, body, env=None, args=None, depth=0, stack=()):
        """list of witnesses [(fn, line, what)...] of unguarded success; empty = guarded"""
        env = env or {}
        if args is None:
            args = self.param_exprs(body)
        if depth > self.max_depth or body.path in stack:
            return [[(body.path, body.line, "recursion/depth limit: treated as unguarded")]]
        w = self.w
        sem = self.sem
        be = w.be(body)
        cfg = be.cfg
        self.stats["functions"].add(body.path)

        def resolve(e):
            return w.subst_params(e, body, args)

        removed = set(sem.feasible_removed(be, env))
        pass_edges = set()
        for blk in body.blocks:
            if blk.cleanup or blk.idx not in cfg.live or blk.term.kind != "switch":
                continue
            self.stats["switches"] += 1
            facts = sem.edge_facts(be, blk.idx)
            for succ, fl in facts.items():
                for f in fl:
                    ok = False
                    if self.pass_fact(f, resolve):
                        ok = True
                    elif f[0] == "variant" and f[2] == "Ok":
                        x = f[1]
                        g = w.callee_body(x) if x.op == "call" else None
                        if g is not None and g.is_fn() and g.path not in stack:
                            gargs = [resolve(a) for a in x.args]
                            genv = self.callee_env(g, x.args, env)
                            if not self.unguarded(g, genv, gargs, depth + 1, stack + (body.path,)):
                                ok = True
                    if ok:
                        pass_edges.add((blk.idx, succ))
        self.stats["pass_edges"] += len(pass_edges)
        reach = cfg.reach([0], removed=removed | pass_edges)
        witnesses = []
        for bb, idx, kind, x in sem.ret_sites(be):
            if bb not in reach:
                continue
            self.stats["success_sites"] += 1
            line = body.blocks[bb].term.line if idx >= len(body.blocks[bb].stmts) else body.blocks[bb].stmts[idx].line
            if kind == "err":
                continue
            if kind == "ok" or kind == "libcall" or kind == "unknown":
                path = cfg.path(0, bb, removed=removed | pass_edges) or []
                lines = self.path_lines(body, path)
                witnesses.append([(body.path, line, "success exit (%s) reachable without the guard; path lines %s" % (kind, lines))])
            elif kind == "call":
                g = w.callee_body(x)
                gargs = [resolve(a) for a in x.args]
                genv = self.callee_env(g, x.args, env)
                sub = self.unguarded(g, genv, gargs, depth + 1, stack + (body.path,))
                for s in sub:
                    witnesses.append([(body.path, line, "delegates to %s" % g.path)] + s)
        return witnesses

    @staticmethod
    def path_lines(body, path):
        lines = []
        for b in path:
            l = body.blocks[b].term.line
            if l > 1 and (not lines or lines[-1] != l):
                lines.append(l)
        return lines
