#!/bin/bash
# tools/runall.sh <repo-dir> [props...] : run checks against a tree, print only non-passing summaries
D=$1; shift
PROPS=${@:-$(jq -r '.checks[].property_id' /verif/MANIFEST.json)}
for p in $PROPS; do
  KRP_REPO=$D KRP_EVIDENCE_DIR=/tmp/evx /verif/check $p > /tmp/evx.$p.out 2>&1
  rc=$?
  if [ $rc -ne 0 ]; then echo "== $p rc=$rc"; grep -v '^KNOWN' /tmp/evx.$p.out | grep -v '^VIOLATION' | cut -c1-${WIDTH:-500}; fi
done
echo "-- done $D"
