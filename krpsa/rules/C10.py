"""C10 - privileged operations are rejected for every unauthorised sender (DESIGN 6, C10)."""
from ..authz import GuardAnalysis
from ..callgraph import explore, storage_effects, site_guarded
from ..expr import show
from .common import CONTRACTS, entry, msg_enum, variant_env, stored, where

HUBCFG = "basset_sei_hub::state::CONFIG"
HUBNEW = "singleton:basset_sei_hub::state::KEY_NEWOWNER"
RWCFG = "basset_sei_reward::state::CONFIG"
RWNEW = "basset_sei_reward::state::NEWOWNER"
DPCFG = "basset_sei_rewards_dispatcher::state::CONFIG"
DPNEW = "basset_sei_rewards_dispatcher::state::NEWOWNERADDR"
RGCFG = "basset_sei_validators_registry::registry::CONFIG"
RGNEW = "basset_sei_validators_registry::registry::NEWOWNERADDR"
RGREG = "basset_sei_validators_registry::registry::REGISTRY"
BSHUB = "basset_sei_token_bsei::state::HUB_CONTRACT_KEY"
STHUB = "basset_sei_token_stsei::state::HUB_CONTRACT"
TOKINFO = "cw20_legacy::state::TOKEN_INFO"


def hubq(field):
    return ("query", stored(RWCFG, "hub_contract"), "basset::hub::QueryMsg", "Config", (field,))


PUBLIC = "public"
TRUSTED_EXTERNAL = "trusted-external"  # guard lives in the version-pinned cw20-base

# variant -> admissible principal labels (DESIGN C10 table)
TABLE = {
    "hub": {
        "UpdateConfig": [stored(HUBCFG, "creator")],
        "UpdateParams": [stored(HUBCFG, "creator")],
        "SetOwner": [stored(HUBCFG, "creator")],
        "AcceptOwnership": [stored(HUBNEW, "new_owner_addr")],
        "BondRewards": [stored(HUBCFG, "reward_dispatcher_contract")],
        "UpdateGlobalIndex": [stored(HUBCFG, "update_reward_index_addr"), stored(HUBCFG, "validators_registry_contract")],
        "Receive": [stored(HUBCFG, "bsei_token_contract"), stored(HUBCFG, "stsei_token_contract")],
        "ClaimAirdrop": [stored(HUBCFG, "airdrop_registry_contract")],
        "SwapHook": [("self",)],
        "RedelegateProxy": [stored(HUBCFG, "validators_registry_contract")],
        "Bond": PUBLIC, "BondForStSei": PUBLIC, "WithdrawUnbonded": PUBLIC, "CheckSlashing": PUBLIC,
        "MigrateUnbondWaitList": PUBLIC,
    },
    "reward": {
        "UpdateConfig": [stored(RWCFG, "owner")],
        "SetOwner": [stored(RWCFG, "owner")],
        "UpdateSwapDenom": [stored(RWCFG, "owner")],
        "AcceptOwnership": [stored(RWNEW, "new_owner_addr")],
        "SwapToRewardDenom": [hubq("reward_dispatcher_contract")],
        "UpdateGlobalIndex": [hubq("reward_dispatcher_contract")],
        "IncreaseBalance": [hubq("bsei_token_contract")],
        "DecreaseBalance": [hubq("bsei_token_contract")],
        "ClaimRewards": PUBLIC,
    },
    "dispatcher": {
        "SwapToRewardDenom": [stored(DPCFG, "hub_contract")],
        "DispatchRewards": [stored(DPCFG, "hub_contract")],
        "UpdateConfig": [stored(DPCFG, "owner")],
        "SetOwner": [stored(DPCFG, "owner")],
        "UpdateSwapContract": [stored(DPCFG, "owner")],
        "UpdateSwapDenom": [stored(DPCFG, "owner")],
        "UpdateOracleContract": [stored(DPCFG, "owner")],
        "AcceptOwnership": [stored(DPNEW, "new_owner_addr")],
    },
    "registry": {
        "AddValidator": [stored(RGCFG, "owner"), stored(RGCFG, "hub_contract")],
        "RemoveValidator": [stored(RGCFG, "owner")],
        "UpdateConfig": [stored(RGCFG, "owner")],
        "SetOwner": [stored(RGCFG, "owner")],
        "AcceptOwnership": [stored(RGNEW, "new_owner_addr")],
        "Redelegations": PUBLIC,
    },
    "bsei": {
        "Mint": [stored(TOKINFO, "mint", "minter")],
        "Burn": [stored(BSHUB)],
        "Transfer": PUBLIC, "Send": PUBLIC, "IncreaseAllowance": PUBLIC, "DecreaseAllowance": PUBLIC,
        "TransferFrom": PUBLIC, "SendFrom": PUBLIC, "BurnFrom": PUBLIC,
    },
    "stsei": {
        "Burn": [stored(STHUB)],
        "Mint": TRUSTED_EXTERNAL, "UpdateMinter": TRUSTED_EXTERNAL, "UpdateMarketing": TRUSTED_EXTERNAL,
        "UploadLogo": TRUSTED_EXTERNAL,
        "Transfer": PUBLIC, "Send": PUBLIC, "IncreaseAllowance": PUBLIC, "DecreaseAllowance": PUBLIC,
        "TransferFrom": PUBLIC, "SendFrom": PUBLIC, "BurnFrom": PUBLIC,
    },
}

# cells holding principals: written only by instantiate or by the listed (guarded) variants
PRINCIPAL_CELLS = {
    "hub": {HUBCFG: {"UpdateConfig", "AcceptOwnership"}, HUBNEW: {"SetOwner"}},
    "reward": {RWCFG: {"UpdateConfig", "AcceptOwnership", "UpdateSwapDenom"}, RWNEW: {"SetOwner"}},
    "dispatcher": {DPCFG: {"UpdateConfig", "AcceptOwnership", "UpdateSwapContract", "UpdateSwapDenom", "UpdateOracleContract"},
                   DPNEW: {"SetOwner"}},
    "registry": {RGCFG: {"UpdateConfig", "AcceptOwnership"}, RGNEW: {"SetOwner"}, RGREG: {"AddValidator", "RemoveValidator"}},
    "bsei": {BSHUB: set()},
    "stsei": {STHUB: set()},
}

OWNERSHIP = {  # contract -> (config cell, owner field, nominee cell, nominee field)
    "hub": (HUBCFG, "creator", HUBNEW, "new_owner_addr"),
    "reward": (RWCFG, "owner", RWNEW, "new_owner_addr"),
    "dispatcher": (DPCFG, "owner", DPNEW, "new_owner_addr"),
    "registry": (RGCFG, "owner", RGNEW, "new_owner_addr"),
}


def mk_pass(sem, admissible, seen):
    adm = set(admissible)

    def pf(f, resolve):
        if f[0] == "cmp" and f[1] == "Eq":
            la = sem.label(resolve(f[2]))
            lb = sem.label(resolve(f[3]))
            if la == ("sender",) and lb in adm:
                seen.add(lb)
                return True
            if lb == ("sender",) and la in adm:
                seen.add(la)
                return True
        if f[0] == "truth" and f[2] is True and f[1].op == "call" and f[1].info.rsplit("::", 1)[-1] == "contains" and len(f[1].args) == 2:
            # `[a, b].contains(&info.sender)`: the sender is one of the listed principals, all of which must be admissible
            w = sem.w
            lst = w.ident(resolve(f[1].args[0]), expand_ws=False)
            if lst.op == "call" and lst.info == "vec!" and lst.args:
                lst = lst.args[0]
            if lst.op == "array" and lst.args and sem.label(resolve(f[1].args[1])) == ("sender",):
                labs = [sem.label(x) for x in lst.args]
                if all(l in adm for l in labs):
                    seen.update(labs)
                    return True
        return False
    return pf


def run(prog, world, sem, rep):
    rep.rule("C10.a", "every success exit of a privileged message variant (transitively through delegating calls) is reachable "
             "only through an edge on which info.sender == designated principal was observed (variants the property does not list are held to C10.b-d only)", 34)
    rep.rule("C10.b", "storage cells holding principals are written only by instantiate and by their designated guarded variants", 18)
    rep.rule("C10.c", "two-step ownership: the owner field is only assigned from the nominee cell in the nominee-guarded arm; "
             "the nominee cell only from the message in the owner-guarded arm; no other writer changes the owner field", 16)
    rep.rule("C10.f", "ownership messages always take effect: no success exit of SetOwner without the nominee cell having been written, none of "
             "AcceptOwnership without the owner field having been written (a silently skipped update leaves a withdrawn nominee able to accept)", 8)
    rep.rule("C10.d", "hub token addresses are write-once: every write of Config.{bsei,stsei}_token_contract either preserves the "
             "stored value or is reachable only when is_some() on that field was observed false", 4)
    rep.rule("C10.e", "token instantiate wires minter and hub cell to msg.hub_contract; cw20-legacy never reassigns TokenInfo.mint", 7)

    per_variant_writes = {}
    for c in CONTRACTS:
        ex = entry(prog, c)
        if ex is None:
            rep.ob("C10.a", "%s execute entry point" % c, False, "entry point %s::contract::execute not found" % CONTRACTS[c])
            continue
        adt_path, adt = msg_enum(prog, ex)
        variants = [v["name"] for v in adt["variants"]]
        table = TABLE[c]
        for v in variants:
            if v not in table:
                # a variant the property does not list: it is held to the cell-ownership rules (C10.b-d: it may not write a principal cell),
                # not to a sender guard
                rep.note("%s::%s is not in the authorisation table: treated as public, principal-cell rules apply" % (c, v))
        for v in table:
            if v not in variants:
                rep.ob("C10.a", "%s::%s" % (c, v), False, "anchor-lost: table row for %s::%s but the variant no longer exists" % (adt_path, v))
        for v in variants:
            row = table.get(v, PUBLIC)
            env = variant_env(prog, ex, v)
            if row in (PUBLIC, TRUSTED_EXTERNAL):
                rep.note("%s::%s is %s" % (c, v, row))
            else:
                seen = set()
                ga = GuardAnalysis(sem, mk_pass(sem, row, seen))
                wit = ga.unguarded(ex, env)
                detail = "principals observed: %s; functions: %s" % (sorted(map(str, seen)), sorted(ga.stats["functions"]))
                if wit:
                    wtxt = " -> ".join("%s:%s %s" % s for s in wit[0])
                    rep.ob("C10.a", "%s::%s" % (c, v), False,
                           "success exit of %s::%s reachable without sender == %s: %s" % (c, v, [str(r) for r in row], wtxt),
                           where(ex), witness=wit[:3])
                else:
                    rep.ob("C10.a", "%s::%s" % (c, v), True, detail, where(ex))
            # write-set of the variant (specialised closure of the call graph)
            visits = explore(sem, ex, env)
            eff = storage_effects(sem, visits)
            per_variant_writes[(c, v)] = (visits, eff)

    # C10.b: who writes principal cells
    for c, cells in PRINCIPAL_CELLS.items():
        for (cc, v), (visits, eff) in per_variant_writes.items():
            if cc != c:
                continue
            for (vis, bb, kind, cell, key, val, e) in eff:
                if kind not in ("write", "update", "remove"):
                    continue
                if cell in cells:
                    ok = v in cells[cell]
                    rep.ob("C10.b", "%s::%s writes %s" % (c, v, cell), ok,
                           "variant %s::%s %s principal cell %s at %s" % (c, v, kind, cell, where(vis.body, bb)),
                           where(vis.body, bb), key="C10.b | %s::%s | %s" % (c, v, cell))
        # unknown cells fail closed
    for (c, v), (visits, eff) in per_variant_writes.items():
        for (vis, bb, kind, cell, key, val, e) in eff:
            if kind in ("write", "update", "remove") and (cell is None or cell.endswith(":?")):
                rep.ob("C10.b", "%s::%s unidentified cell" % (c, v), False,
                       "storage write whose cell cannot be identified: %s" % show(e, 4), where(vis.body, bb))

    # C10.c two-step ownership
    for c, (cfg, ofield, ncell, nfield) in OWNERSHIP.items():
        ex = entry(prog, c)
        for (cc, v), (visits, eff) in per_variant_writes.items():
            if cc != c:
                continue
            for (vis, bb, kind, cell, key, val, e) in eff:
                if kind not in ("write", "update"):
                    continue
                if cell == cfg:
                    wv = sem.written_value(kind, cell, val)
                    if wv is None:
                        rep.ob("C10.c", "%s::%s owner field" % (c, v), False, "cannot evaluate value written to %s" % cfg, where(vis.body, bb))
                        continue
                    fl = sem.label(sem.field_of(wv, ofield))
                    if v == "AcceptOwnership":
                        ok = fl == stored(ncell, nfield)
                        rep.ob("C10.c", "%s::AcceptOwnership owner := nominee" % c, ok,
                               "owner field written with %s (expected the nominee cell %s.%s)" % (fl, ncell, nfield), where(vis.body, bb))
                    else:
                        ok = fl == stored(cfg, ofield)
                        rep.ob("C10.c", "%s::%s preserves owner" % (c, v), ok,
                               "owner field %s.%s written with %s by variant %s (must be preserved)" % (cfg, ofield, fl, v), where(vis.body, bb))
                if cell == ncell:
                    wv = sem.written_value(kind, cell, val)
                    fl = sem.label(sem.field_of(wv, nfield)) if wv is not None else None
                    ok = v == "SetOwner" and fl is not None and fl[0] == "param" and "new_owner_addr" in fl[4]
                    rep.ob("C10.c", "%s::%s nominee := msg.new_owner_addr" % (c, v), ok,
                           "nominee cell written with %s by variant %s" % (fl, v), where(vis.body, bb))

    # C10.f ownership messages always take effect
    from .common import arm_handler
    for c, (cfg, ofield, ncell, nfield) in OWNERSHIP.items():
        for v, cell in (("SetOwner", ncell), ("AcceptOwnership", cfg)):
            visits, eff = per_variant_writes[(c, v)]
            h = arm_handler(sem, visits)
            sites = set()
            for (vis, bb, kind, cell2, key, val, e) in eff:
                if cell2 == cell and kind in ("write", "update"):
                    lv, lbb = vis, bb
                    while lv is not h and lv.parent is not None:
                        lv, lbb = lv.parent
                    if lv is h:
                        sites.add(lbb)
            oks = [bb for (bb, idx, kind, x) in sem.ret_sites(h.be) if kind in ("ok", "libcall", "unknown") and bb in h.blocks]
            r = h.be.cfg.reach([0], stop=sites)
            skipped = [bb for bb in oks if bb in r and bb not in sites]
            rep.ob("C10.f", "%s::%s always writes %s" % (c, v, cell.split("::")[-1]), bool(sites) and bool(oks) and not skipped,
                   "%s can succeed without writing %s (success exit at line %s reachable around the write)" % (v, cell, [h.body.blocks[b].term.line for b in skipped])
                   if skipped or not sites else "every success exit passes the write", where(h.body), key="C10.f | %s::%s" % (c, v))

    # C10.d token addresses write-once
    for fld in ("bsei_token_contract", "stsei_token_contract"):
        n = 0
        for (cc, v), (visits, eff) in per_variant_writes.items():
            if cc != "hub":
                continue
            for (vis, bb, kind, cell, key, val, e) in eff:
                if cell != HUBCFG or kind not in ("write", "update"):
                    continue
                n += 1
                ok, detail = write_once_ok(sem, vis, kind, cell, val, fld, visits)
                rep.ob("C10.d", "hub::%s write of Config.%s" % (v, fld), ok, detail, where(vis.body, bb),
                       key="C10.d | hub::%s | %s | %s" % (v, vis.body.path, fld))

    # C10.e minter wiring
    for c, initfn in (("bsei", "cw20_legacy::contract::instantiate"), ("stsei", "cw20_base::contract::instantiate")):
        ins = entry(prog, c, "instantiate")
        be = world.be(ins)
        found = False
        for blk in ins.calls():
            e = be.ev_call(blk.idx, blk.term)
            if e.op == "call" and e.info == initfn:
                found = True
                m = world.ident(e.args[3])
                mint = sem.field_of(m, "mint")
                minter = sem.label(sem.field_of(sem.some_of(mint), "minter")) if mint is not None else None
                ok = minter is not None and minter[0] == "param" and minter[4] == ("hub_contract",)
                rep.ob("C10.e", "%s instantiate minter" % c, ok, "mint.minter = %s" % (minter,), where(ins, blk.idx))
        if not found:
            rep.ob("C10.e", "%s instantiate minter" % c, False, "anchor-lost: no call to %s" % initfn, where(ins))
        wrote = False
        for site in sem.storage_sites(be):
            bb, kind, cell, key, val, e = site
            if kind == "write" and cell in (BSHUB, STHUB):
                wrote = True
                lab = sem.label(val)
                ok = lab is not None and lab[0] == "param" and lab[4] == ("hub_contract",)
                rep.ob("C10.e", "%s instantiate hub cell" % c, ok, "hub cell = %s" % (lab,), where(ins, bb))
        if not wrote:
            # bSei stores through a helper
            vis = explore(sem, ins)
            for (v2, bb, kind, cell, key, val, e) in storage_effects(sem, vis):
                if kind == "write" and cell in (BSHUB, STHUB):
                    wrote = True
                    rep.ob("C10.e", "%s instantiate hub cell" % c, True, "hub cell written in %s" % v2.body.path, where(v2.body, bb))
            if not wrote:
                rep.ob("C10.e", "%s instantiate hub cell" % c, False, "anchor-lost: hub cell never written in instantiate", where(ins))
    # cw20-legacy never reassigns TokenInfo.mint outside instantiate
    for (cc, v), (visits, eff) in per_variant_writes.items():
        if cc != "bsei":
            continue
        for (vis, bb, kind, cell, key, val, e) in eff:
            if cell == TOKINFO and kind in ("write", "update"):
                wv = sem.written_value(kind, cell, val)
                fl = sem.label(sem.field_of(wv, "mint")) if wv is not None else None
                rep.ob("C10.e", "bsei::%s preserves TokenInfo.mint" % v, fl == stored(TOKINFO, "mint"),
                       "TokenInfo.mint written with %s" % (fl,), where(vis.body, bb))


def _anc(v):
    out = []
    while v.parent is not None:
        v = v.parent[0]
        out.append(v)
    return out


def write_once_ok(sem, vis, kind, cell, val, fld, visits=None):
    """value written to Config.<fld> is the stored one, or the write happens only when
    is_some(stored fld) was observed false"""
    w = sem.w
    wv = sem.written_value(kind, cell, val)
    if wv is None:
        return False, "cannot evaluate written value"
    fl = sem.label(sem.field_of(wv, fld))
    if fl == stored(cell, fld):
        return True, "preserved"
    # field assignments `<config>.fld = ..` anywhere under this write's function (load + modify + save, or inside an update closure):
    # each must lie behind the observation that the stored / incoming field is still unset
    def unset(f, resolve):
        if f[0] == "truth" and f[2] is False and f[1].op == "call" and f[1].info == "std::option::Option::is_some":
            lab = sem.label(resolve(f[1].args[0]))
            return lab is not None and ((lab[0] == "stored" and lab[1] == cell and tuple(lab[3]) == (fld,)) or (lab[0] == "param" and lab[4] == (fld,) and "Config" in lab[3]))
        return False
    if visits is not None:
        n_def = 0
        for v2 in visits:
            if not (v2 is vis or any(a is vis for a in _anc(v2))):
                continue
            for l, ds in v2.be.defs_by_local.items():
                if not v2.body.local_tys[l].replace("&mut ", "").replace("&", "").strip().endswith("hub::Config"):
                    continue
                for d in ds:
                    if d.path and len(d.path) >= 1 and d.path[0][0] == "f" and d.path[0][1] == fld and d.bb in v2.blocks:
                        n_def += 1
                        g, why = site_guarded(sem, v2, d.bb, unset)
                        if not g:
                            return False, "Config.%s assigned at line %d of %s without having observed it unset (%s)" % (
                                fld, v2.body.blocks[d.bb].term.line, v2.body.path, why)
        if n_def:
            return True, "%d assignment(s) of Config.%s, each behind is_some() == false" % (n_def, fld)
    if kind != "update":
        return False, "Config.%s overwritten with %s by a plain save" % (fld, fl)
    clo = w.ident(val)
    cb = w.prog.bodies.get(clo.info)
    cbe = w.be(cb)
    # pass edges: is_some(param.fld) observed false
    pass_edges = set()
    for blk in cb.blocks:
        if blk.cleanup or blk.term.kind != "switch":
            continue
        for succ, fl2 in sem.edge_facts(cbe, blk.idx).items():
            for f in fl2:
                if f[0] == "truth" and f[2] is False and f[1].op == "call" and f[1].info == "std::option::Option::is_some":
                    lab = sem.label(f[1].args[0])
                    if lab and lab[0] == "param" and lab[4] == (fld,):
                        pass_edges.add((blk.idx, succ))
    reach = cbe.cfg.reach([0], removed=pass_edges)
    for bb, idx, k, x in sem.ret_sites(cbe):
        if k == "ok" and bb in reach:
            # this Ok exit is reachable without the check: it must preserve the field
            v = sem.field_of(w.ident(x.args[0]), fld)
            lab = sem.label(v)
            if not (lab and lab[0] == "param" and lab[4] == (fld,)):
                return False, "closure %s can return Ok with %s changed without checking is_some()" % (cb.path, fld)
    return True, "guarded by is_some() == false in %s" % cb.path
