"""A7: cross-contract message graph.  Nodes are (contract, kind, variant); edges are every
WasmMsg::Execute emission and WasmQuery::Smart issued in the (specialised) closure of a node,
with the target contract resolved from the identity label of the address through the
principal table (DESIGN Appendix C)."""
from .callgraph import explore, message_effects, call_sites
from .rules.common import CONTRACTS, entry, msg_enum, variant_env, stored
from .rules.msgs import wasm_execute

HUBCFG = "basset_sei_hub::state::CONFIG"
DPCFG = "basset_sei_rewards_dispatcher::state::CONFIG"
RWCFG = "basset_sei_reward::state::CONFIG"
RGCFG = "basset_sei_validators_registry::registry::CONFIG"
BSHUB = "basset_sei_token_bsei::state::HUB_CONTRACT_KEY"
STHUB = "basset_sei_token_stsei::state::HUB_CONTRACT"

PRINCIPALS = {
    stored(HUBCFG, "bsei_token_contract"): "bsei",
    stored(HUBCFG, "stsei_token_contract"): "stsei",
    stored(HUBCFG, "reward_dispatcher_contract"): "dispatcher",
    stored(HUBCFG, "validators_registry_contract"): "registry",
    stored(HUBCFG, "airdrop_registry_contract"): "EXT:airdrop",
    stored(DPCFG, "hub_contract"): "hub",
    stored(DPCFG, "bsei_reward_contract"): "reward",
    stored(DPCFG, "swap_contract"): "EXT:swap",
    stored(DPCFG, "oracle_contract"): "EXT:oracle",
    stored(RWCFG, "hub_contract"): "hub",
    stored(RWCFG, "swap_contract"): "EXT:swap",
    stored(RGCFG, "hub_contract"): "hub",
    stored(BSHUB): "hub",
    stored(STHUB): "hub",
}


def resolve_target(label, self_contract):
    if label is None:
        return "EXT:unknown"
    if label == ("self",):
        return self_contract
    if label in PRINCIPALS:
        return PRINCIPALS[label]
    if label[0] == "query":
        # a field of another contract's ConfigResponse obtained by a smart query to a principal
        tgt = resolve_target(label[1], self_contract)
        fld = label[4][-1] if label[4] else None
        if tgt == "hub" and label[3] == "Config":
            return {"reward_dispatcher_contract": "dispatcher", "bsei_token_contract": "bsei", "stsei_token_contract": "stsei",
                    "validators_registry_contract": "registry"}.get(fld, "EXT:unknown")
        if tgt == "dispatcher" and label[3] == "Config":
            return {"bsei_reward_contract": "reward", "hub_contract": "hub", "swap_contract": "EXT:swap", "oracle_contract": "EXT:oracle"}.get(fld, "EXT:unknown")
        return "EXT:unknown"
    if label[0] == "param":
        return "EXT:param:%s" % ".".join(label[4])
    return "EXT:unknown"


class XGraph:
    def __init__(self, prog, world, sem):
        self.prog = prog
        self.world = world
        self.sem = sem
        self._edges = {}

    def variants(self, contract, kind):
        e = entry(self.prog, contract, kind)
        path, adt = msg_enum(self.prog, e)
        return [v["name"] for v in adt["variants"]]

    def edges(self, contract, kind, variant):
        """[(edge kind, target contract, payload variant or None, where)] from one node"""
        key = (contract, kind, variant)
        if key in self._edges:
            return self._edges[key]
        prog, world, sem = self.prog, self.world, self.sem
        e = entry(prog, contract, kind)
        vs = explore(sem, e, variant_env(prog, e, variant))
        out = []
        for (v, bb, i, m) in message_effects(sem, vs):
            r = wasm_execute(world, sem, m)
            if r is None:
                continue
            tl, payload, funds, caddr = r
            alts = world.ident(caddr)
            labs = {sem.label(a) for a in (alts.args if alts.op == "phi" else (alts,))}
            for l in labs:
                tgt = resolve_target(l, contract)
                pv = payload.info[1] if payload is not None and payload.op == "adt" else None
                pt = payload.info[0] if payload is not None and payload.op == "adt" else None
                out.append(("execute", tgt, pv, pt, "%s:%d" % (v.body.file, v.body.blocks[bb].stmts[i].line)))
        for (v, bb, ce) in call_sites(sem, vs, lambda k: k == "cosmwasm_std::QuerierWrapper::query"):
            q = sem.smart_query(ce.args[1]) if len(ce.args) > 1 else None
            if q is None:
                out.append(("query", "EXT:unknown", None, None, "%s:%d" % (v.body.file, v.body.blocks[bb].term.line)))
                continue
            tgt = resolve_target(q[0], contract)
            out.append(("query", tgt, q[2], q[1], "%s:%d" % (v.body.file, v.body.blocks[bb].term.line)))
        # cw20 hook delivery: Cw20ReceiveMsg::into_cosmos_msg(contract)
        for (v, bb, ce) in call_sites(sem, vs, lambda k: k.endswith("Cw20ReceiveMsg::into_cosmos_msg")):
            l = sem.label(ce.args[1]) if len(ce.args) > 1 else None
            out.append(("execute", "RECIPIENT", "Receive", "cw20::Cw20ReceiveMsg", "%s:%d" % (v.body.file, v.body.blocks[bb].term.line)))
        # calls into the external cw20-base handlers (stSei): they deliver the same hook
        for (v, bb, ce) in call_sites(sem, vs, lambda k: k in ("cw20_base::contract::execute_send", "cw20_base::allowances::execute_send_from")):
            out.append(("execute", "RECIPIENT", "Receive", "cw20::Cw20ReceiveMsg", "%s:%d" % (v.body.file, v.body.blocks[bb].term.line)))
        self._edges[key] = out
        return out

    def closure(self, starts, recipient="hub"):
        """transitive closure over execute and query edges; `recipient` resolves cw20 Send hooks"""
        seen = {}
        work = list(starts)
        edges = []
        while work:
            n = work.pop()
            if n in seen:
                continue
            seen[n] = True
            c, kind, var = n
            if c.startswith("EXT") or c not in CONTRACTS:
                continue
            try:
                known = self.variants(c, kind)
            except Exception:
                known = []
            if var not in known:
                edges.append((n, ("unresolved-variant", c, var, None, "")))
                continue
            for ed in self.edges(c, kind, var):
                ek, tgt, pv, pt, wh = ed
                if tgt == "RECIPIENT":
                    tgt = recipient
                edges.append((n, (ek, tgt, pv, pt, wh)))
                work.append((tgt, "execute" if ek == "execute" else "query", pv))
        return seen, edges
