#!/usr/bin/env python3
"""tools/seed_table.py : fills `needs_to_manifest` of every seeded/<id>/meta.json (from tools/seed_needs.json, else from the
"What is needed for it to manifest" section of the seed's README.md) and rewrites the seed table of DESIGN.md section 12 from the
meta.json files (`detected_by` is written by tools/seed_rerun.py / tools/seed_confirm.py)."""
import glob, json, os, re
VERIF = os.path.dirname(os.path.dirname(os.path.abspath(__file__)))
needs = json.load(open(os.path.join(VERIF, "tools", "seed_needs.json")))


def from_readme(d):
    p = os.path.join(d, "README.md")
    if not os.path.exists(p):
        return None
    t = open(p).read()
    m = re.search(r"^#+\s*What (?:is|it) need(?:ed|s)[^\n]*\n(.*?)(?=^#+\s|\Z)", t, re.S | re.M | re.I)
    if not m:
        return None
    x = re.sub(r"\s+", " ", re.sub(r"[*`]", "", m.group(1))).strip()
    return x[:420]


def order(k):
    m = re.match(r"C(\d+)-s(\d+)", k)
    return (int(m.group(1)), int(m.group(2)))


rows = []
for d in sorted(glob.glob(os.path.join(VERIF, "seeded", "*")), key=lambda d: order(os.path.basename(d))):
    sid = os.path.basename(d)
    mp = os.path.join(d, "meta.json")
    m = json.load(open(mp))
    n = needs.get(sid) or (m.get("needs_to_manifest") if m.get("needs_to_manifest") not in (None, "", "see README.md") else None) or from_readme(d) or "see README.md"
    if m.get("needs_to_manifest") != n:
        m["needs_to_manifest"] = n
        json.dump(m, open(mp, "w"), indent=1)
    own = m.get("breaks_property")
    db = m.get("detected_by") or {}
    own_rules = ", ".join(db.get(own, {}).get("rules", [])) if own in db else ""
    others = sorted(k for k in db if k != own)
    caught = own_rules if own_rules else "-"
    if others:
        caught += " (also reported by ./check %s)" % ", ".join(others)
    if not db:
        caught = "**MISSED**"
    rows.append("| %s | %s | %s |" % (sid, n.replace("|", "/")[:170], caught))
table = "| seed | needs (abridged) | rules of `./check <its property>` that report it |\n|------|------------------|-----------|\n" + "\n".join(rows) + "\n"
p = os.path.join(VERIF, "DESIGN.md")
s = open(p).read()
m = re.search(r"\| seed \| needs \(abridged\) \|[^\n]*\n\|[-| ]+\|\n(?:\|[^\n]*\n)+", s)
assert m, "seed table not found in DESIGN.md"
s = s[:m.start()] + table + s[m.end():]
open(p, "w").write(s)
print("seeds: %d, missed: %d, not caught by own property's check: %d" % (
    len(rows), sum("MISSED" in r for r in rows), sum(r.split("|")[3].strip().startswith("-") for r in rows)))
