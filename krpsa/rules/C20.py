"""C20 - stored parameters stay within range under any update sequence (DESIGN 6, C20)."""
from ..authz import GuardAnalysis
from ..callgraph import explore, storage_effects, site_guarded
from ..expr import show
from .common import CONTRACTS, entry, msg_enum, variant_env, stored, where, alts

PARAMS = "basset_sei_hub::state::PARAMETERS"
HUBCFG = "basset_sei_hub::state::CONFIG"
DPCFG = "basset_sei_rewards_dispatcher::state::CONFIG"
RWCFG = "basset_sei_reward::state::CONFIG"
RGCFG = "basset_sei_validators_registry::registry::CONFIG"

BOUNDED = [("hub", PARAMS, "peg_recovery_fee"), ("hub", PARAMS, "er_threshold"), ("dispatcher", DPCFG, "krp_keeper_rate")]
FROZEN = [("hub", PARAMS, "underlying_coin_denom"), ("dispatcher", DPCFG, "stsei_reward_denom")]

# (contract, variant) -> cell, {stored field: message field}; every other field of the struct must be preserved
UPDATES = {
    ("hub", "UpdateParams"): (PARAMS, {"epoch_period": "epoch_period", "unbonding_period": "unbonding_period",
                                       "peg_recovery_fee": "peg_recovery_fee", "er_threshold": "er_threshold",
                                       "reward_denom": "reward_denom", "paused": "paused"}),
    ("hub", "UpdateConfig"): (HUBCFG, {"reward_dispatcher_contract": "rewards_dispatcher_contract",
                                       "bsei_token_contract": "bsei_token_contract", "stsei_token_contract": "stsei_token_contract",
                                       "airdrop_registry_contract": "airdrop_registry_contract",
                                       "validators_registry_contract": "validators_registry_contract",
                                       "rewards_contract": "rewards_contract", "update_reward_index_addr": "update_reward_index_addr"}),
    ("dispatcher", "UpdateConfig"): (DPCFG, {"hub_contract": "hub_contract", "bsei_reward_contract": "bsei_reward_contract",
                                             "bsei_reward_denom": "bsei_reward_denom", "krp_keeper_address": "krp_keeper_address",
                                             "krp_keeper_rate": "krp_keeper_rate"}),
    ("dispatcher", "UpdateSwapContract"): (DPCFG, {"swap_contract": "swap_contract"}),
    ("dispatcher", "UpdateOracleContract"): (DPCFG, {"oracle_contract": "oracle_contract"}),
    ("dispatcher", "UpdateSwapDenom"): (DPCFG, {"swap_denoms": "*"}),
    ("reward", "UpdateConfig"): (RWCFG, {"hub_contract": "hub_contract", "reward_denom": "reward_denom", "swap_contract": "swap_contract"}),
    ("reward", "UpdateSwapDenom"): (RWCFG, {"swap_denoms": "*"}),
    ("registry", "UpdateConfig"): (RGCFG, {"hub_contract": "hub_contract"}),
}

ONE = ("const", "lib", "Decimal::one")


def struct_field_names(prog, sem, wv):
    if wv.op == "adt":
        return list(wv.info[2])
    return None


def run(prog, world, sem, rep):
    rep.rule("C20.a", "every value stored to a bounded field (hub peg_recovery_fee, er_threshold; dispatcher krp_keeper_rate) is the "
             "previously stored value, or min(., 1), or an incoming value v whose write is reachable only through the edge v <= 1 "
             "(or the edge on which the incoming option was observed absent)", 12)
    rep.rule("C20.b", "frozen fields (hub underlying_coin_denom, dispatcher stsei_reward_denom) are only ever re-stored with their "
             "stored value outside instantiate; a present stsei_reward_denom in the dispatcher's UpdateConfig has no success exit", 9)
    rep.rule("C20.c", "for every update variant each stored field is written only with its own stored value or the message field "
             "tabled for it; all other fields are preserved", 93)

    # collect all writers per contract: instantiate + every execute variant
    writers = {}  # (contract, cell) -> list of (origin, vis, bb, kind, val)
    for c in CONTRACTS:
        roots = [("instantiate", entry(prog, c, "instantiate"), {})]
        ex = entry(prog, c)
        adt_path, adt = msg_enum(prog, ex)
        for v in adt["variants"]:
            roots.append((v["name"], ex, variant_env(prog, ex, v["name"])))
        for origin, root, env in roots:
            for (vis, bb, kind, cell, key, val, e) in storage_effects(sem, explore(sem, root, env)):
                if kind in ("write", "update"):
                    writers.setdefault((c, cell), []).append((origin, vis, bb, kind, val))

    # ---------------- C20.a
    for c, cell, fld in BOUNDED:
        ws = writers.get((c, cell), [])
        if not ws:
            rep.ob("C20.a", "%s %s.%s" % (c, cell, fld), False, "anchor-lost: no writer of %s found" % cell)
        for origin, vis, bb, kind, val in ws:
            wv = sem.written_value(kind, cell, val)
            inst = "%s::%s writes %s.%s in %s" % (c, origin, cell.split("::")[-1], fld, vis.body.path)
            if wv is None:
                rep.ob("C20.a", inst, False, "cannot evaluate written value", where(vis.body, bb), fkey="%s::%s %s.%s" % (c, origin, cell, fld))
                continue
            fv = sem.field_of(wv, fld)
            bad = []
            notes = []
            for a in alts(world, fv):
                lab = sem.label(a)
                if lab == stored(cell, fld):
                    notes.append("stored")
                    continue
                if a.op == "call" and a.info == "std::cmp::Ord::min" and any(sem.label(x) == ONE for x in a.args):
                    notes.append("min(.,1)")
                    continue
                if lab == ONE:
                    notes.append("the constant 1")
                    continue
                if lab is None:
                    bad.append("computed value %s" % show(a, 4))
                    continue
                # incoming value: needs v <= 1 (or absent) on every path to the write
                def fp(f, resolve, lab=lab):
                    if f[0] == "cmp" and f[1] == "Le":
                        return sem.label(resolve(f[2])) == lab and sem.label(resolve(f[3])) == ONE
                    if f[0] == "truth" and f[2] is False and f[1].op == "call" and f[1].info == "std::option::Option::is_some":
                        return sem.label(resolve(f[1].args[0])) == lab
                    if f[0] == "variant" and f[2] == "None":
                        return sem.label(resolve(f[1])) == lab
                    if f[0] == "truth" and f[1].op == "call" and f[1].info in ("std::option::Option::map_or", "std::option::Option::is_some_and") and \
                            f[1].args[-1].op == "closure" and sem.label(resolve(f[1].args[0])) == lab:
                        # `fee.map_or(false, |v| v > one)` observed false / `fee.map_or(true, |v| v <= one)` observed true / `fee.is_some_and(|v| v > one)`
                        # observed false: the option is absent or its payload is <= 1
                        cb = prog.bodies.get(f[1].args[-1].info)
                        if cb is not None:
                            g = sem._norm_bool(world.ident(world.ret_expr(cb), expand_ws=False), f[2])
                            if g[0] == "cmp" and g[1] == "Le":
                                a0 = world.ident(g[2], expand_ws=False)
                                return a0.op == "param" and a0.info[1] == 2 and sem.label(g[3]) == ONE
                    return False
                ok, d = site_guarded(sem, vis, bb, fp)
                if not ok:
                    # the bound may be enforced on the assembled value just before the save (`if p.f > 1 { p.f = 1 }`): the comparison is then
                    # on a value that has the incoming one among its alternatives; the incoming alternative must not reach the save on any path
                    # that avoids the edges on which the bound was observed
                    def fp2(f, resolve, lab=lab):
                        if f[0] == "cmp" and f[1] == "Le":
                            return lab in sem.labels(resolve(f[2])) and sem.label(resolve(f[3])) == ONE
                        return fp(f, resolve)
                    pe = set()
                    for blk in vis.body.blocks:
                        if blk.term.kind == "switch" and blk.idx in vis.blocks:
                            for succ, fl in sem.edge_facts(vis.be, blk.idx).items():
                                if any(fp2(f, vis.resolve) for f in fl):
                                    pe.add((blk.idx, succ))
                    if pe:
                        be2 = world.be_spec(vis.body, frozenset(vis.removed) | frozenset(pe))
                        still = False
                        if bb in be2.cfg.live:
                            for (b2, k2, c2, key2, val2, e2) in sem.storage_sites(be2):
                                if b2 == bb and c2 == cell and k2 == kind:
                                    wv2 = sem.written_value(k2, c2, vis.resolve(val2))
                                    still = wv2 is None or lab in {sem.label(x) for x in alts(world, sem.field_of(wv2, fld))}
                        if not still:
                            ok, d = True, "the incoming value reaches the save only through an edge on which value <= 1 was observed (%d edge(s))" % len(pe)
                if ok:
                    notes.append("incoming %s: %s" % (lab[-1] if lab else lab, d))
                else:
                    bad.append("incoming value %s stored without an upper-bound check: %s" % (lab, d))
            rep.ob("C20.a", inst, not bad, "; ".join(bad) if bad else "; ".join(notes), where(vis.body, bb),
                   key="C20.a | %s::%s | %s | %s.%s" % (c, origin, vis.body.path, cell, fld), fkey="%s::%s %s.%s" % (c, origin, cell, fld))

    # ---------------- C20.b
    for c, cell, fld in FROZEN:
        for origin, vis, bb, kind, val in writers.get((c, cell), []):
            if origin == "instantiate":
                continue
            wv = sem.written_value(kind, cell, val)
            labs = [sem.label(a) for a in alts(world, sem.field_of(wv, fld))] if wv is not None else [None]
            ok = all(l == stored(cell, fld) for l in labs)
            rep.ob("C20.b", "%s::%s preserves %s.%s (%s)" % (c, origin, cell.split("::")[-1], fld, vis.body.path), ok,
                   "frozen field written with %s" % labs if not ok else "re-stored with its stored value", where(vis.body, bb),
                   key="C20.b | %s::%s | %s | %s" % (c, origin, vis.body.path, fld), fkey="%s::%s %s.%s" % (c, origin, cell, fld))
    ex = entry(prog, "dispatcher")
    OPT = "std::option::Option"
    env = variant_env(prog, ex, "UpdateConfig", {"stsei_reward_denom": ("enum", "Some", (None,), OPT)})
    ga = GuardAnalysis(sem, lambda f, r: False)
    wit = ga.unguarded(ex, env)
    rep.ob("C20.b", "dispatcher UpdateConfig{stsei_reward_denom: Some(_)} always fails", not wit,
           "UpdateConfig with stsei_reward_denom present can succeed: %s" % (wit[:1],) if wit else "no success exit under the specialisation", where(ex))
    # positive control for the specialisation: with the field absent the variant can succeed
    env0 = variant_env(prog, ex, "UpdateConfig", {"stsei_reward_denom": ("enum", "None", (), OPT)})
    wit0 = GuardAnalysis(sem, lambda f, r: False).unguarded(ex, env0)
    rep.ob("C20.b", "positive control: UpdateConfig{stsei_reward_denom: None} has a success exit", bool(wit0),
           "specialisation control lost" if not wit0 else "control ok", where(ex))

    # ---------------- C20.c
    for (c, variant), (cell, table) in UPDATES.items():
        ws = [w for w in writers.get((c, cell), []) if w[0] == variant]
        if not ws:
            rep.ob("C20.c", "%s::%s" % (c, variant), False, "anchor-lost: variant %s::%s has no writer of %s" % (c, variant, cell))
            continue
        touched = set()
        for origin, vis, bb, kind, val in ws:
            wv = sem.written_value(kind, cell, val)
            names = struct_field_names(prog, sem, wv) if wv is not None else None
            if names is None:
                # whole-struct copy of the stored value is a preservation of every field
                lab = sem.label(wv) if wv is not None else None
                rep.ob("C20.c", "%s::%s whole-struct write in %s" % (c, variant, vis.body.path), lab == stored(cell),
                       "whole value written: %s" % (lab,), where(vis.body, bb), fkey="%s::%s whole-struct write" % (c, variant))
                continue
            for f in names:
                fv = sem.field_of(wv, f)
                labs = []
                ok = True
                for a in alts(world, fv):
                    lab = sem.label(a)
                    labs.append(lab)
                    if lab == stored(cell, f):
                        continue
                    m = table.get(f)
                    if m == "*":
                        touched.add(f)
                        continue
                    if m is not None and lab is not None and lab[0] == "param" and lab[4] and lab[4][0] == m:
                        touched.add(f)
                        continue
                    if m is not None and f == "er_threshold" and lab == ONE:
                        touched.add(f)   # the cap itself, however it is written (min(v, 1) or `if v > 1 { v = 1 }`)
                        continue
                    if m is not None and f == "er_threshold" and a.op == "call" and a.info == "std::cmp::Ord::min":
                        inner = [sem.label(y) for x in a.args for y in alts(world, x)]
                        if all(l in (stored(cell, f), ONE) or (l and l[0] == "param" and l[4] and l[4][0] == m) for l in inner):
                            touched.add(f)
                            continue
                    ok = False
                rep.ob("C20.c", "%s::%s %s.%s in %s" % (c, variant, cell.split("::")[-1], f, vis.body.path), ok,
                       "field %s written with %s (allowed: its stored value%s)" % (f, labs, ", message field %s" % table[f] if f in table else "")
                       if not ok else "sources %s" % [l[-1] if l else l for l in labs], where(vis.body, bb),
                       key="C20.c | %s::%s | %s | %s" % (c, variant, vis.body.path, f), fkey="%s::%s %s.%s" % (c, variant, cell, f))
        for f in table:
            rep.ob("C20.c", "%s::%s updates %s" % (c, variant, f), f in touched,
                   "tabled message field %s is never stored to %s.%s" % (table[f], cell, f) if f not in touched else "stored from the message",
                   where(entry(prog, c)))
