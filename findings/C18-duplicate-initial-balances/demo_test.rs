// Demonstration for the C18 defect fixed by "fix: cw20-legacy: accumulate repeated initial balances".
// Append inside `mod tests` of packages/cw20-legacy/src/contract.rs (scratch copy) and run
//   cargo test -p cw20-legacy --offline duplicate_initial_balances_demo
// Before the fix: balance(addr1) = 5 but total_supply = 15  -> FAILS.  After the fix: 15 = 15.
    #[test]
    fn duplicate_initial_balances_demo() {
        let mut deps = mock_dependencies_with_balance(&[]);
        let addr1 = String::from("addr0001");
        let instantiate_msg = InstantiateMsg {
            name: "Bash Shell".to_string(),
            symbol: "BASH".to_string(),
            decimals: 6,
            initial_balances: vec![
                Cw20Coin { address: addr1.clone(), amount: Uint128::new(10) },
                Cw20Coin { address: addr1.clone(), amount: Uint128::new(5) },
            ],
            mint: None,
        };
        let info = mock_info("creator", &[]);
        instantiate(deps.as_mut(), mock_env(), info, instantiate_msg).unwrap();
        let supply = query_token_info(deps.as_ref()).unwrap().total_supply;
        let bal = query_balance(deps.as_ref(), addr1).unwrap().balance;
        assert_eq!(supply, bal, "sum of balances ({}) != total supply ({})", bal, supply);
    }
