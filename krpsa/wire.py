"""A8: wire-schema agreement.  What a sender serialises (variant tag, field names) is read
from the derived `Serialize::serialize` body of the payload type; what a receiver accepts
(variant tags, unknown-field policy) from the derived `Deserialize` items (VARIANTS const,
field visitors) of its message enum.  Field names / optionality come from the ADT table.
External cw20 0.16.0 types (bodies not in the analysed MIR) use their ADT shape plus the
crate's documented `rename_all = "snake_case"`; the version pin is checked under C18.f."""
import re


def snake(name):
    return re.sub(r"(?<!^)(?=[A-Z])", "_", name).lower()


class Wire:
    def __init__(self, prog, world):
        self.prog = prog
        self.world = world
        self._ser = {}

    # ------------------------------------------------------------ sender side
    def serialized(self, ty):
        """{variant index: (tag, [field names])} read from the derived serialize body, or None"""
        if ty in self._ser:
            return self._ser[ty]
        body = None
        for path, bs in self.prog.multi.items():
            for b in bs:
                if b.is_fn() and b.derive and (b.impl_trait or "").endswith("::Serialize") and b.impl_self == ty and path.endswith("::serialize"):
                    body = b
        if body is None:
            self._ser[ty] = None
            return None
        be = self.world.be(body)
        cfg = be.cfg
        out = {}
        heads = {}
        for blk in body.blocks:
            if blk.idx not in cfg.live or blk.term.kind != "call":
                continue
            c = blk.term.callee
            if c.name in ("serialize_struct_variant", "serialize_unit_variant", "serialize_newtype_variant", "serialize_tuple_variant"):
                args = blk.term.args
                idx = args[2].const_scalar()
                tag = args[3].const_str()
                heads[blk.idx] = (idx, tag, c.name)
        for hb, (idx, tag, kind) in heads.items():
            others = set(heads) - {hb}
            reach = cfg.reach([hb], stop=others)
            fields = []
            for b in sorted(reach):
                t = body.blocks[b].term
                if t.kind == "call" and t.callee.name == "serialize_field" and len(t.args) > 1:
                    nm = t.args[1].const_str()
                    if nm is not None and nm not in fields:
                        fields.append(nm)
            out[idx] = (tag, fields, kind)
        self._ser[ty] = out
        return out

    def sender_shape(self, ty, variant):
        """(tag, [fields], source) for payload enum `ty`, variant name `variant`"""
        adt = self.prog.adt(ty)
        if adt is None:
            return None
        vi = None
        for v in adt["variants"]:
            if v["name"] == variant:
                vi = v
        if vi is None:
            return None
        ser = self.serialized(ty)
        if ser is not None and vi["idx"] in ser:
            tag, fields, kind = ser[vi["idx"]]
            return tag, fields, "derived Serialize body"
        if adt.get("krate") in ("cw20", "cw20_base"):
            return snake(variant), [f["name"] for f in vi["fields"] if not f["name"].isdigit()], "cw20 0.16.0 ADT + rename_all=snake_case (pinned)"
        return None

    # ------------------------------------------------------------ receiver side
    def accepted(self, ty):
        """(variant tags in declaration order, deny_unknown_fields, source) for receiver enum `ty`"""
        tags = None
        deny = False
        for path, bs in self.prog.multi.items():
            for b in bs:
                if b.kind == "const" and path.endswith("::deserialize::VARIANTS") and ("for %s>" % ty) in path:
                    for pb in b.promoted:
                        for blk in pb.blocks:
                            for s in blk.stmts:
                                if s.rv is not None and s.rv.kind == "agg" and s.rv.j.get("array"):
                                    tags = [o.const_str() for o in s.rv.ops]
                if b.is_fn() and path.endswith("::visit_str") and ("for %s>" % ty) in path:
                    for blk in b.calls():
                        if blk.term.callee.name == "unknown_field":
                            deny = True
        if tags is not None:
            return tags, deny, "derived Deserialize items"
        adt = self.prog.adt(ty)
        if adt is not None and adt.get("krate") in ("cw20", "cw20_base"):
            return [snake(v["name"]) for v in adt["variants"]], False, "cw20 0.16.0 ADT + rename_all=snake_case (pinned)"
        return None, False, None

    def receiver_fields(self, ty, tag):
        """[(field name, required)] of the receiver variant with wire tag `tag`"""
        tags, deny, src = self.accepted(ty)
        adt = self.prog.adt(ty)
        if tags is None or adt is None or tag not in tags:
            return None
        v = adt["variants"][tags.index(tag)]
        return [(f["name"], not f["ty"].startswith("std::option::Option<")) for f in v["fields"] if not f["name"].isdigit()], v

    def compatible(self, sty, svar, rty):
        """(ok, detail) for a message of type sty::svar delivered to a receiver expecting rty"""
        if sty == rty:
            return True, "same type %s" % sty
        s = self.sender_shape(sty, svar)
        if s is None:
            return False, "cannot read the serialised shape of %s::%s" % (sty, svar)
        tag, fields, ssrc = s
        tags, deny, rsrc = self.accepted(rty)
        if tags is None:
            return False, "cannot read what %s accepts" % rty
        if tag not in tags:
            return False, "receiver %s has no variant with wire tag '%s' (accepts %s)" % (rty, tag, tags)
        rf, rv = self.receiver_fields(rty, tag)
        rnames = [n for n, _ in rf]
        missing = [n for n, req in rf if req and n not in fields]
        extra = [n for n in fields if n not in rnames]
        if missing:
            return False, "receiver %s::%s requires field(s) %s which the sender does not serialise" % (rty, rv["name"], missing)
        if extra and deny:
            return False, "sender serialises %s which receiver %s rejects (deny_unknown_fields)" % (extra, rty)
        return True, "tag '%s' accepted by %s::%s; sender fields %s, receiver fields %s%s [%s / %s]" % (
            tag, rty.split("::")[-2] if "::" in rty else rty, rv["name"], fields, rnames, " (extra ignored)" if extra else "", ssrc, rsrc)
