"""C19 - a global index update delivers all staking rewards: structural clauses (DESIGN 6, C19)."""
from ..callgraph import explore, storage_effects, message_effects, call_sites, site_guarded, written_value_in
from ..expr import show, find
from ..wire import Wire
from ..xgraph import XGraph, resolve_target
from .common import CONTRACTS, entry, msg_enum, variant_env, stored, where, arm_handler
from .hub_common import HUBCFG, STATE
from .msgs import wasm_execute, vec_elems, coin_parts, is_zero_fact
from .C17 import zero_send_sites, lab_short, swap_order
from .msgs import push_sequences, response_sequences, collection_repr
from ..expr import E, simplify

DISP = stored(HUBCFG, "reward_dispatcher_contract")


def run(prog, world, sem, rep):
    rep.rule("C19.a", "the hub's UpdateGlobalIndex emits one WithdrawDelegatorReward per delegation of the hub (query_all_delegations(self)), for that "
             "delegation's validator, followed by SwapToRewardDenom and then DispatchRewards to Config.reward_dispatcher_contract, on every path", 3)
    rep.rule("C19.b", "field pairing of the bonded totals: stsei_total_bonded = State.total_bond_stsei_amount, bsei_total_bonded = "
             "State.total_bond_bsei_amount (same type: invisible to the compiler)", 2)
    rep.rule("C19.c", "withdraw address: whenever Config.reward_dispatcher_contract is assigned, SetWithdrawAddress with the identical address is "
             "emitted in the same response", 1)
    rep.rule("C19.d", "wire agreement on every cross-contract edge of the workspace whose payload type differs from the receiver's message type: the "
             "serialised variant tag is accepted and required fields are present (extra fields only where the receiver ignores unknown fields)", 7)
    rep.rule("C19.e", "the reward-delivery transaction contains no zero-coin transfer (shared with C17.a; the three dispatcher sites are known findings)", 5)

    rep.rule("C19.f", "the dispatcher's swap step can be paid for: conversions precede the rebalancing swap that spends their proceeds (shared with "
             "C17.i); a reversed order makes the bank reject the funds and reverts the whole UpdateGlobalIndex transaction", 1)
    dex = entry(prog, "dispatcher")
    okord, dord, h2 = swap_order(world, sem, explore(sem, dex, variant_env(prog, dex, "SwapToRewardDenom")))
    rep.ob("C19.f", "conversions precede the rebalancing swap", okord, dord, where(h2.body))

    rep.rule("C19.h", "the update can be triggered by each of its designated callers: on the guards of the hub's UpdateGlobalIndex both the configured updater "
             "(Config.update_reward_index_addr) and the validators registry (Config.validators_registry_contract, which sends the update while removing a "
             "validator) are compared with info.sender; a guard that names another cell rejects the registry and rolls the removal back", 1)
    from ..authz import GuardAnalysis
    from .C10 import mk_pass, TABLE
    hex_ = entry(prog, "hub")
    row = TABLE["hub"]["UpdateGlobalIndex"]
    seen_p = set()
    GuardAnalysis(sem, mk_pass(sem, row, seen_p)).unguarded(hex_, variant_env(prog, hex_, "UpdateGlobalIndex"))
    missing = [str(r) for r in row if r not in seen_p]
    rep.ob("C19.h", "hub::UpdateGlobalIndex accepts the updater and the validators registry", not missing,
           "no comparison of info.sender with %s guards the update: that caller is rejected" % missing if missing
           else "guards compare info.sender with %s" % sorted(map(str, seen_p)), where(hex_), key="C19.h | hub::UpdateGlobalIndex")
    rep.rule("C19.g", "the delivery steps cannot refuse: reward::UpdateGlobalIndex and dispatcher::DispatchRewards have no explicit error exit other than "
             "the rejection of an unauthorised sender (any other refusal reverts the whole hub transaction, withdrawals and re-bond included)", 2)
    for (cn, vn) in (("reward", "UpdateGlobalIndex"), ("dispatcher", "DispatchRewards")):
        cex = entry(prog, cn)
        cvs = explore(sem, cex, variant_env(prog, cex, vn))

        def unauth(f, resolve):
            if f[0] == "cmp" and f[1] == "Ne":
                return ("sender",) in (sem.label(resolve(f[2])), sem.label(resolve(f[3])))
            return False
        bad = []
        n_err = 0
        for cv in cvs:
            if cv.body.kind == "closure":
                continue
            for (bb, idx, kind, x) in sem.ret_sites(cv.be):
                if kind == "err" and x.op == "adt" and bb in cv.blocks:
                    n_err += 1
                    g, d0 = site_guarded(sem, cv, bb, unauth)
                    if not g:
                        st = cv.body.blocks[bb].stmts
                        bad.append("%s line %d" % (cv.body.path.split("::")[-1], st[idx].line if idx < len(st) else cv.body.blocks[bb].term.line))
        rep.ob("C19.g", "%s::%s refuses only unauthorised senders" % (cn, vn), n_err > 0 and not bad,
               "explicit error exit(s) not tied to the sender check: %s (a refusal here reverts the hub's whole UpdateGlobalIndex transaction)" % bad if bad or not n_err
               else "%d explicit refusal(s), all behind sender != principal" % n_err, where(cex), key="C19.g | %s::%s" % (cn, vn))

    ex = entry(prog, "hub")
    vs = explore(sem, ex, variant_env(prog, ex, "UpdateGlobalIndex"))
    h = arm_handler(sem, vs)
    # ---------------------------------------------------------------- C19.a
    ret = world.ret_expr(h.body)
    ok = False
    det = "anchor-lost: response message list"
    seqs = [s for alt in world._ok_alts(ret, "ok", 0, False) for s in response_sequences(world, alt)]
    if seqs:
        kinds = []
        for s in seqs:
            ks = []
            for x in s:
                xi = world.ident(h.resolve(x))
                if xi.op == "out" or (xi.op == "call" and xi.info.endswith("Vec::append")):
                    ks.append("appended")
                    continue
                cr = collection_repr(world, xi)
                if cr is not None:
                    xi = world.ident(cr)
                    some = simplify(E("proj", (xi,), "some"))
                    if xi.op == "call" and xi.info.endswith("::Some"):
                        xi = world.ident(xi.args[0])
                inner = world.ident(xi.args[0]) if xi.op == "adt" and xi.info[0].endswith("CosmosMsg") and xi.args else xi
                r0 = wasm_execute(world, sem, inner) if inner.op == "adt" else None
                if r0 and r0[1] is not None and r0[1].op == "adt":
                    ks.append("%s->%s" % (r0[1].info[1], "dispatcher" if r0[0] == DISP else lab_short(r0[0])))
                elif r0:
                    ks.append("airdrop-hook" if r0[0] == stored(HUBCFG, "airdrop_registry_contract") else "wasm?")
                else:
                    # the appended withdraw messages (a Vec produced by a helper)
                    src = world.ident(xi)
                    wd = find(world.norm(xi), lambda y: y.op == "adt" and y.info[0].endswith("DistributionMsg") and y.info[1] == "WithdrawDelegatorReward")
                    ks.append("withdrawals" if wd else "?")
            kinds.append(ks)
        tails = [[k for k in ks if k not in ("airdrop-hook",)] for ks in kinds]
        FULL = ["withdrawals", "SwapToRewardDenom->dispatcher", "DispatchRewards->dispatcher"]
        ok = bool(tails) and all(t == FULL for t in tails)
        if not ok and tails and any(t == FULL for t in tails) and all(t in (FULL, FULL[1:]) for t in tails):
            # the withdrawals are pushed by a loop written in the handler itself: the sequence without them is the loop's zero-iteration
            # alternative (no delegation) - provided the loop over the delegations is entered on every success path
            ok = "loop"
        det = "message sequences %s" % kinds
    seq_ok, seq_det = ok, det
    wd = [(v, bb, e) for (v, bb, i, e) in message_effects(sem, vs) if e.info[0].endswith("DistributionMsg") and e.info[1] == "WithdrawDelegatorReward"]
    okw = len(wd) == 1
    det = "WithdrawDelegatorReward constructions: %d" % len(wd)
    if okw:
        v, bb, e = wd[0]
        val = world.norm(e.args[0], 0, False)
        # validator of the loop item over query_all_delegations(self)
        q = find(val, lambda y: y.op == "call" and y.info.endswith("query_all_delegations"))
        okw = val.op == "field" and val.info[0] == "validator" and bool(q) and sem.label(q[0].args[1]) == ("self",)
        # unconditional per element
        be = v.be
        heads = []
        if v.body.kind == "closure" and v.args and any(a is not None and a.op == "elem" for a in v.args):
            # iterator form: the closure of a map over the delegations, no adaptor dropping entries, message built on every path
            from ..iters import item_source, droppers
            it = [a for a in v.args if a is not None and a.op == "elem"][0]
            dr = droppers(world, item_source(world, it))
            oks = [b2 for b2 in be.cfg.exits() if b2 in be.cfg.live]
            always = not any(b2 in be.cfg.reach([0], stop={bb}) and b2 != bb for b2 in oks)
            okw = okw and not dr and always
            det = "validator %s; one message per delegation (iterator form): droppers %s, built on every path %s" % (show(val, 3), [d0[0] for d0 in dr], always)
            rep.ob("C19.a", "one withdrawal per delegation of the hub", okw, det, where(h.body))
            heads = None
        for blk in v.body.blocks:
            if blk.term.kind == "switch" and blk.idx in be.cfg.live:
                for succ, fl in sem.edge_facts(be, blk.idx).items():
                    for f in fl:
                        if f[0] == "variant" and f[2] == "Some" and f[1].op == "call" and f[1].info.endswith("Iterator::next") and \
                                find(world.norm(v.resolve(f[1].args[0]), 0, False), lambda y: y.op == "call" and y.info.endswith("query_all_delegations")):
                            heads.append((blk.idx, succ))
        if heads is not None and seq_ok == "loop":
            from ..callgraph import always_passes
            root = [x for x in vs if x.parent is None][0]
            entered = bool(heads) and all(always_passes(sem, v, hb, lambda f, resolve: False, root)[0] for (hb, _s) in heads)
            seq_ok = entered
            seq_det += "; the loop over the delegations is entered on every success path: %s" % entered
        if heads is not None:
            skip = any(hb in be.cfg.reach([succ], stop={bb}) for (hb, succ) in heads)
            okw = okw and bool(heads) and not skip
            det = "validator %s; one message per delegation: %s" % (show(val, 3), bool(heads) and not skip)
    if not (okw and len(wd) == 1 and wd[0][0].body.kind == "closure" and "iterator form" in det):
        rep.ob("C19.a", "one withdrawal per delegation of the hub", okw, det, where(h.body))
    rep.ob("C19.a", "withdrawals, then swap, then dispatch on every path", seq_ok is True, seq_det, where(h.body))
    tgt_ok = True
    n_d = 0
    for (v, bb, i, e) in message_effects(sem, vs):
        r0 = wasm_execute(world, sem, e)
        if r0 and r0[1] is not None and r0[1].op == "adt" and r0[1].info[1] in ("SwapToRewardDenom", "DispatchRewards"):
            n_d += 1
            tgt_ok = tgt_ok and r0[0] == DISP and vec_elems(world, r0[2]) == [] and r0[1].info[0] == "basset_sei_rewards_dispatcher::msg::ExecuteMsg"
    rep.ob("C19.a", "swap and dispatch go to Config.reward_dispatcher_contract", tgt_ok and n_d == 2, "dispatcher messages %d, targets ok %s" % (n_d, tgt_ok), where(h.body))
    # ---------------------------------------------------------------- C19.b
    for (v, bb, i, e) in message_effects(sem, vs):
        r0 = wasm_execute(world, sem, e)
        if r0 and r0[1] is not None and r0[1].op == "adt" and r0[1].info[1] == "SwapToRewardDenom":
            d = dict(zip(r0[1].info[2], r0[1].args))
            for tk in ("bsei", "stsei"):
                l = sem.label(d.get("%s_total_bonded" % tk))
                rep.ob("C19.b", "%s_total_bonded = State.total_bond_%s_amount" % (tk, tk), l == stored(STATE, "total_bond_%s_amount" % tk),
                       "%s_total_bonded taken from %s" % (tk, l), where(v.body, bb))
    # ---------------------------------------------------------------- C19.c
    adt_path, adt = msg_enum(prog, ex)
    n_assign = 0
    bad = []
    for vn in [x["name"] for x in adt["variants"]]:
        vv = vs if vn == "UpdateGlobalIndex" else explore(sem, ex, variant_env(prog, ex, vn))
        hh = arm_handler(sem, vv)
        for (v, bb, kind, cell, key, val, e) in storage_effects(sem, vv):
            if cell != HUBCFG or kind not in ("write", "update"):
                continue
            wv = written_value_in(sem, vv, v, kind, cell, val)
            fv = world.ident(sem.field_of(wv, "reward_dispatcher_contract")) if wv is not None else None
            if fv is None or sem.label(fv) == DISP:
                continue
            n_assign += 1
            newl = None
            for a in (fv.args if fv.op == "phi" else (fv,)):
                if a.op == "adt" and a.info[1] == "Some":
                    newl = sem.label(a.args[0])
            sw = [(v2, b2, e2) for (v2, b2, i2, e2) in message_effects(sem, vv) if e2.info[0].endswith("DistributionMsg") and e2.info[1] == "SetWithdrawAddress"]
            okc = len(sw) == 1 and sem.label(sw[0][2].args[0]) == newl and newl is not None
            if okc:
                # emitted whenever the assignment happens: same guard region (the message push is dominated by the assignment's block or vice versa)
                v2, b2, e2 = sw[0]
                # field-level assignments `<config>.reward_dispatcher_contract = ..` in the function building the message (load + modify + save form)
                fdefs = [d0.bb for l0, ds0 in v2.be.defs_by_local.items() if v2.body.local_tys[l0].replace("&mut ", "").replace("&", "").strip().endswith("hub::Config")
                         for d0 in ds0 if d0.path and d0.path[0][0] == "f" and d0.path[0][1] == "reward_dispatcher_contract" and d0.bb in v2.blocks]
                caller, cbb = (v, bb)
                while caller.parent is not None and caller is not v2:
                    caller, cbb = caller.parent
                if fdefs:
                    okc = caller is v2 and all(v2.be.cfg.dominates(db, b2) or v2.be.cfg.dominates(b2, db) for db in fdefs)
                else:
                    okc = caller is v2 and (v2.be.cfg.dominates(cbb, b2) or v2.be.cfg.dominates(b2, cbb))
                # and the response actually carries it
                r2 = world.ret_expr(hh.body)
                okc = okc and bool(find(hh.resolve(r2), lambda y: y.op == "adt" and y.info[0].endswith("DistributionMsg") and y.info[1] == "SetWithdrawAddress") or
                                   find(world.norm(hh.resolve(r2)), lambda y: y.op == "adt" and y.info[0].endswith("DistributionMsg") and y.info[1] == "SetWithdrawAddress"))
            if not okc:
                bad.append("hub::%s assigns the dispatcher address (%s) without a matching SetWithdrawAddress" % (vn, newl))
    rep.ob("C19.c", "SetWithdrawAddress accompanies every change of the dispatcher address", n_assign >= 1 and not bad,
           "; ".join(bad) if bad else "%d assignment site(s), each with SetWithdrawAddress(address)" % n_assign, where(ex))
    # ---------------------------------------------------------------- C19.d
    g = XGraph(prog, world, sem)
    wire = Wire(prog, world)
    seen = set()
    for c in CONTRACTS:
        for kind in ("execute",):
            for var in g.variants(c, kind):
                for (ek, tgt, pv, pt, wh) in g.edges(c, kind, var):
                    if tgt == "RECIPIENT":
                        tgt = "hub"
                    if tgt not in CONTRACTS or pv is None:
                        continue
                    rex = entry(prog, tgt, "execute" if ek == "execute" else "query")
                    rty, radt = msg_enum(prog, rex)
                    k = (c, ek, tgt, pt, pv, rty)
                    if k in seen:
                        continue
                    seen.add(k)
                    if pt == "cw20::Cw20ReceiveMsg":
                        # cw20 0.16.0: into_cosmos_msg wraps the hook as ReceiverExecuteMsg::Receive => tag "receive"
                        tags, deny, src = wire.accepted(rty)
                        ok = tags is not None and "receive" in tags
                        rep.ob("C19.d", "%s -> %s: cw20 receive hook" % (c, tgt), ok, "receiver tags %s" % tags, wh, key="C19.d | %s->%s | receive" % (c, tgt))
                        continue
                    if pt == rty:
                        rep.note("edge %s -> %s %s::%s: same type" % (c, tgt, pt, pv))
                        continue
                    ok, det = wire.compatible(pt, pv, rty)
                    rep.ob("C19.d", "%s -> %s: %s::%s delivered to %s" % (c, tgt, pt.split("::")[-1], pv, rty), ok, det, wh, key="C19.d | %s->%s | %s::%s" % (c, tgt, pt, pv))
    rep.extra["edges_checked"] = len(seen)
    # ---------------------------------------------------------------- C19.e
    tx_fns = set()
    seen_nodes, edges = g.closure([("hub", "execute", "UpdateGlobalIndex")])
    for (c, vis, bb, kind, to, elems, e, k) in zero_send_sites(prog, world, sem):
        # sites that are part of the UpdateGlobalIndex transaction: dispatcher and reward-side swap, hub re-bond
        if c not in ("dispatcher",):
            continue
        for coin in elems or []:
            amt, denom = coin_parts(world, sem, coin)
            aid = world.ident(amt)
            dl = sem.label(denom)

            def fp(f, resolve, aid=aid):
                return is_zero_fact(world, f, resolve, aid)
            ok, d = site_guarded(sem, vis, bb, fp)
            rep.ob("C19.e", "%s %s{to=%s, denom=%s}" % (k, kind, lab_short(to), lab_short(dl)), ok,
                   "zero-coin transfer possible in the reward-delivery transaction: amount %s unchecked (%s)" % (show(aid, 3), d) if not ok else d,
                   where(vis.body, bb), key="C19.e | %s | %s{to=%s, denom=%s}" % (k, kind, lab_short(to), lab_short(dl)),
                   fkey="%s{to=%s, denom=%s}" % (kind, lab_short(to), lab_short(dl)))
