"""C03 - reported rates equal backing over claims and price every mint/redeem: structural clauses (DESIGN 6, C03).
Also hosts the shared context enumeration used by C04."""
from ..callgraph import explore, storage_effects, message_effects, call_sites, written_value_in, site_guarded
from ..ir import strip_generics
from ..expr import subst, mk_phi, show, find, E, simplify, arith_args
from .common import entry, variant_env, stored, where, arm_handler
from .hub_common import (receive_handlers, subtree, Roles, resync_fns, recompute_fns, HUBCFG, PARAMS, STATE, BATCH, TOKENS)
from .msgs import wasm_execute

TOK = ("bsei", "stsei")
REQ = {"bsei": "requested_bsei_with_fee", "stsei": "requested_stsei"}
RATE = {"bsei": "bsei_exchange_rate", "stsei": "stsei_exchange_rate"}
POOLF = {"bsei": "total_bond_bsei_amount", "stsei": "total_bond_stsei_amount"}


def through_pure(world, x, depth=0):
    """look through pure workspace helpers that merely compute a value from their arguments (e.g. `compute_mint_amount(bond_type, ..)`,
    specialised for constant arguments), except the two-argument leaf arithmetic helpers (the decimal division) which the rules
    recognise as such"""
    x = world.ident(x, expand_ws=False)
    if depth > 4:
        return x
    if x.op == "phi":
        return mk_phi([through_pure(world, a, depth + 1) for a in x.args])
    c = x.args[0] if x.op == "proj" and x.info == "ok" else x
    if c.op == "call":
        b = world.callee_body(c)
        if b is not None and b.is_fn() and world.is_pure(b):
            leaf = len(c.args) == 2 and not any(world.prog.bodies.get(strip_generics(bl.term.callee.dpath)) is not None for bl in b.calls())
            if not leaf:
                ex = world.expand(c)
                alts = world._ok_alts(ex, "ok", 0, False) if x.op == "proj" else [ex]
                if alts:
                    return mk_phi([through_pure(world, a, depth + 1) for a in alts])
    return x


def signed_terms(world, e, sign=1):
    """[(sign, leaf)] of nested Add / Sub / checked_sub"""
    x = through_pure(world, e)
    if x.op == "proj":
        x = x.args[0]
    if x.op == "call" and x.info == "std::result::Result::map_err":
        return signed_terms(world, x.args[0], sign)
    if x.op == "bin" and x.info == "Add":
        return signed_terms(world, x.args[0], sign) + signed_terms(world, x.args[1], sign)
    if (x.op == "bin" and x.info == "Sub") or (x.op == "call" and x.info.endswith("checked_sub")):
        return signed_terms(world, x.args[0], sign) + signed_terms(world, x.args[1], -sign)
    if x.op == "phi":
        # alternatives of one leaf (e.g. amount / amount - fee): keep as a leaf
        return [(sign, x)]
    return [(sign, x)]


def fo(world, e, name):
    """field of a value without expanding effectful workspace calls"""
    return world.ident(simplify(E("field", (e,), (name, "", ""))), expand_ws=False)


def value_alts(world, e, depth=0):
    """alternatives of a computed value, looking through pure workspace helpers (a helper that only computes: its result in terms of
    the call's arguments); effectful workspace calls stay opaque"""
    e = world.ident(e, expand_ws=False)
    out = []
    for a in (e.args if e.op == "phi" else (e,)):
        if a.op == "call" and depth < 4:
            b = world.callee_body(a)
            if b is not None and b.is_fn() and world.is_pure(b):
                x = world.expand(a)
                if x is not a:
                    out.extend(value_alts(world, x, depth + 1))
                    continue
        if a.op == "phi" and depth < 4:
            out.extend(value_alts(world, a, depth + 1))
            continue
        out.append(a)
    return out


def _anc(v):
    out = []
    while v.parent is not None:
        v = v.parent[0]
        out.append(v)
    return out


def contexts(prog, sem):
    """pricing contexts: (name, handler visit, visits of the context, token whose hook/entry it is)"""
    ex = entry(prog, "hub")
    out = []
    for vn, tk in (("Bond", "bsei"), ("BondForStSei", "stsei"), ("BondRewards", "stsei")):
        vs = explore(sem, ex, variant_env(prog, ex, vn))
        out.append((vn, arm_handler(sem, vs), vs, tk))
    vs_r, recv, handlers = receive_handlers(prog, sem)
    for (hooks, toks), hl in sorted(handlers.items()):
        for hv in hl:
            out.append(("Receive/%s/%s" % ("+".join(hooks), "+".join(toks)), hv, subtree(vs_r, hv), toks[0] if toks else None))
    return out


def token_msgs(world, sem, vs):
    """{token: [(sign, amount expr, kind)]} for Mint (+) / Burn (-) messages sent to the registered tokens"""
    out = {"bsei": [], "stsei": []}
    others = []
    for (v, bb, i, m) in message_effects(sem, vs):
        r = wasm_execute(world, sem, m)
        if not r or r[1] is None or r[1].op != "adt" or r[1].info[1] not in ("Mint", "Burn"):
            continue
        tl, payload, funds, caddr = r
        d = dict(zip(payload.info[2], payload.args))
        alts = world.ident(caddr, expand_ws=False)
        tls = set()
        for a in (alts.args if alts.op == "phi" else (alts,)):
            tls.add(sem.label(a))
        hit = False
        for tk, lab in TOKENS.items():
            if tls == {lab}:
                out[tk].append((1 if payload.info[1] == "Mint" else -1, d["amount"], payload.info[1], v, bb))
                hit = True
        if not hit:
            others.append((v, bb, sorted(map(str, tls)), payload.info[1]))
    return out, others


def run(prog, world, sem, rep):
    rep.rule("C03.a", "formula roles: each State rate-update method sets rate := from_ratio(self pool of its own token, total_issued + requested) and "
             "does so only when both are non-zero (otherwise 1)", 2)
    rep.rule("C03.b", "call-site pairing: wherever a pricing operation stores a recomputed X rate, the numerator is the X pool value stored in the same "
             "write, and the denominator is (X token supply queried from the registered X token, adjusted by exactly the X amounts this "
             "operation mints / burns) + the pending X requests of the current batch", 9)
    rep.rule("C03.c", "price pairing: every minted amount is floor(coin value / State.X_exchange_rate) for the token X it is minted on; the coin value "
             "is the payment (bond) or source-token amount x source-token rate (convert); messages go to registered tokens only", 4)
    rep.rule("C03.d", "zero-payment guard: the payment is the coin selected from info.funds whose denom is Parameters.underlying_coin_denom and whose "
             "amount is > 0; no such coin or more than one coin is an error", 3)
    rep.rule("C03.e", "the State query recomputes (it reports the fields of the recomputed State, not a raw load)", 10)

    roles = Roles(prog, sem)
    rs = resync_fns(prog, sem)
    rc = recompute_fns(prog, sem)

    # ---------------------------------------------------------------- C03.a
    for tk in TOK:
        mb = prog.body("basset::hub::State::update_%s_exchange_rate" % tk)
        # structural discovery: methods of State that assign a rate field through &mut self
        cands = [b for b in prog.fn_bodies(crate="basset") if b.kind == "method" and (b.impl_self or "").endswith("hub::State")]
        mb = None
        setters = []
        for b in cands:
            out = world.ident(world.out_expr(b, 0))
            rv = world.ident(sem.field_of(out, RATE[tk]))
            lab = sem.label(rv)
            if not (lab is not None and lab[0] == "param" and lab[4] == (RATE[tk],)):
                setters.append((b, rv))
        # a method that changes the rate only by calling another setter (`apply_bond` -> `update_X_exchange_rate`) is a wrapper: the
        # formula lives in the innermost one
        spaths = {b.path for b, _ in setters}
        for b, rv in setters:
            from ..ir import strip_generics
            callees = {strip_generics(x) for blk in b.calls() for x in (blk.term.callee.dpath, blk.term.callee.path) if x}
            callees |= {prog.alias.get(c, c) for c in callees}
            if not (callees & (spaths - {b.path})):
                mb = (b, rv)
        if mb is None:
            rep.ob("C03.a", "%s rate update method" % tk, False, "anchor-lost: no State method assigns %s" % RATE[tk])
            continue
        b, rv = mb
        alts = value_alts(world, rv)
        fr = [a for a in alts if a.op == "call" and a.info.endswith("Decimal::from_ratio")]
        ones = [a for a in alts if sem.label(a) == ("const", "lib", "Decimal::one")]
        ok = len(fr) == 1 and len(ones) == 1 and len(alts) == 2
        det = "alternatives %s" % [show(a, 3) for a in alts]
        if ok:
            n, d = fr[0].args
            nl = sem.label(n)
            dn = world.ident(d, expand_ws=False)
            ok = nl is not None and nl[0] == "param" and nl[4] == (POOLF[tk],) and dn.op == "bin" and dn.info == "Add" and \
                all(sem.label(x) is not None and sem.label(x)[0] == "param" and sem.label(x)[2] != "self" for x in dn.args)
            det = "from_ratio(%s, %s)" % (show(n, 2), show(dn, 3))
            # guarded by both non-zero tests (looked for in the function that computes the quotient and in its callers)
            mvs = explore(sem, b)
            site = fr[0].site
            hv = [v for v in mvs if site is not None and v.body.path == site[0]]
            kinds = set()
            if hv:
                dnn = world.norm(dn, 0, False)

                def nz_pool(f, resolve):
                    if f[0] == "truth" and f[2] is False and f[1].op == "call" and f[1].info.endswith("::is_zero"):
                        lx = sem.label(resolve(f[1].args[0]))
                        return lx is not None and lx[0] == "param" and lx[4] == (POOLF[tk],)
                    return False

                def nz_supply(f, resolve):
                    if f[0] == "truth" and f[2] is False and f[1].op == "call" and f[1].info.endswith("::is_zero"):
                        return world.norm(resolve(f[1].args[0]), 0, False) == dnn
                    return False
                if site_guarded(sem, hv[0], site[1], nz_pool)[0]:
                    kinds.add("pool")
                if site_guarded(sem, hv[0], site[1], nz_supply)[0]:
                    kinds.add("supply")
            ok = ok and kinds == {"pool", "supply"}
            det += "; non-zero tests observed before the division: %s" % sorted(kinds)
        rep.ob("C03.a", "%s rate := pool / (issued + requested), 1 when either is zero" % tk, ok, det, where(b))

    # ---------------------------------------------------------------- C03.b / C03.c
    ctxs = contexts(prog, sem)
    n_formula = 0
    for (name, hv, vs, tk0) in ctxs:
        tm, others = token_msgs(world, sem, vs)
        for (v, bb, tls, kind) in others:
            rep.ob("C03.c", "%s: %s target" % (name, kind), False, "%s message to %s (not a registered token)" % (kind, tls), where(v.body, bb))
        sw = [(v, bb, kind, val) for (v, bb, kind, cell, key, val, e) in storage_effects(sem, vs)
              if cell == STATE and kind in ("write", "update") and v.body.path not in rs and not any(a.body.path in rs for a in _anc(v)) and
              v.body.kind != "closure"]
        bw = [(v, bb, kind, val) for (v, bb, kind, cell, key, val, e) in storage_effects(sem, vs) if cell == BATCH and kind in ("write", "update")]
        batch_written = {}
        for (v, bb, kind, val) in bw:
            wv = written_value_in(sem, vs, v, kind, BATCH, val)
            for tk in TOK:
                fv = world.norm(fo(world, wv, REQ[tk]), 0, False)
                batch_written[tk] = [a for a in (fv.args if fv.op == "phi" else (fv,))]
        for (v, bb, kind, val) in sw:
            wv = written_value_in(sem, vs, v, kind, STATE, val, False)
            wvs = wv.args if wv.op == "phi" else (wv,)
            for wv1 in wvs:
                for tk in TOK:
                    rv = fo(world, wv1, RATE[tk])
                    alts = value_alts(world, rv)
                    form = [a for a in alts if a.op == "call" and a.info.endswith("Decimal::from_ratio")]
                    for a in alts:
                        if a in form or sem.label(a) == ("const", "lib", "Decimal::one"):
                            continue
                        if roles.role(a) in (("state", RATE[tk]), ("state_raw", RATE[tk])):
                            continue
                        rep.ob("C03.b", "%s: %s rate" % (name, tk), False, "rate stored with %s" % show(a, 4), where(v.body, bb), key="C03.b | %s | %s | foreign" % (name, tk))
                    for fr in form:
                        n_formula += 1
                        num, den = fr.args
                        pool = world.norm(fo(world, wv1, POOLF[tk]), 0, False)
                        bad = []
                        nn = world.norm(num, 0, False)
                        rolled = arith_args(pool, "Sub") is not None and arith_args(pool, "Sub")[0] == nn  # batch undelegated after the update
                        if nn != pool and not rolled:
                            bad.append("numerator %s is not the %s pool value stored with it (%s)" % (show(num, 3), tk, show(pool, 3)))
                        dn = world.ident(den, expand_ws=False)
                        if not (dn.op == "bin" and dn.info == "Add"):
                            bad.append("denominator is not supply + requested: %s" % show(dn, 3))
                        else:
                            sup, req = dn.args
                            rn = world.norm(req, 0, False)
                            okr = roles.role(req) == ("batch", REQ[tk]) or any(rn == x for x in batch_written.get(tk, []))
                            if not okr:
                                bad.append("pending-request term is %s (expected CurrentBatch.%s)" % (show(rn, 3), REQ[tk]))
                            terms = signed_terms(world, sup)
                            base = [t for s, t in terms if roles.role(t) == ("supply", tk)]
                            if len(base) != 1:
                                bad.append("supply term is not the %s token supply: %s" % (tk, [show(t, 2) for _, t in terms]))
                            adj = sorted((s, repr(world.norm(t, 0, False))) for s, t in terms if roles.role(t) != ("supply", tk) and not (t.op == "call" and t.info.endswith("::zero")))
                            # (both sides as multisets of signed leaves, so that `supply + (m - fee)` and `supply + m - fee` agree)
                            exp = sorted((s * s2, repr(world.norm(leaf, 0, False))) for (s, amt, k2, v2, b2) in tm[tk] for (s2, leaf) in signed_terms(world, amt)
                                         if not (world.ident(leaf, expand_ws=False).op == "call" and world.ident(leaf, expand_ws=False).info.endswith("::zero")))
                            if adj != exp:
                                bad.append("supply adjusted by %s but the operation mints/burns %s of %s" % ([a0 for a0, _ in adj], [a0 for a0, _ in exp], tk))
                        rep.ob("C03.b", "%s: %s rate formula operands" % (name, tk), not bad, "; ".join(bad) if bad else
                               "pool / (supply %s + requested)" % ("adjusted by this operation's mint/burn" if tm[tk] else "as queried"),
                               where(v.body, bb), key="C03.b | %s | %s" % (name, tk))
        # ---- C03.c minted amounts
        for tk in TOK:
            for (s, amt, k2, v2, b2) in tm[tk]:
                if k2 != "Mint":
                    continue
                an = world.norm(through_pure(world, amt), 0, False)
                alts = an.args if an.op == "phi" else (an,)
                bad = []
                n_div = 0
                for a in alts:
                    if a.op == "call" and a.info.endswith("::zero"):
                        bad.append("mints a constant zero amount")
                        continue
                    core = a
                    if arith_args(core, "Sub") is not None:
                        core = arith_args(core, "Sub")[0]
                    if not (core.op == "call" and world.callee_body(core) is not None and len(core.args) == 2):
                        bad.append("minted amount is not value / rate: %s" % show(a, 3))
                        continue
                    val, rate = core.args
                    # the division helper: structurally a / b (from_ratio(a, b x 1e18) x 1e18)
                    if roles.role(rate) != ("state", RATE[tk]):
                        bad.append("divides by %s but mints %s" % (roles.role(rate), tk))
                    if name.startswith("Bond"):
                        if roles.role(val) != ("payment", "amount"):
                            bad.append("coin value is %s, not the payment" % show(val, 3))
                    else:
                        src = tk0
                        okv = val.op == "bin" and val.info == "Mul" and len(val.args) == 2
                        if src is None:
                            bad.append("the converting handler is reachable without the sender having been matched with a registered token")
                            okv = False
                        if okv:
                            rls = [roles.role(z) for z in val.args]
                            okv = ("state", RATE[src]) in rls
                            other = [z for z, r in zip(val.args, rls) if r != ("state", RATE[src])]
                            okv = okv and len(other) == 1
                            if okv:
                                # (the after-fee amount may come out of a pure helper / State method: looked through)
                                o = through_pure(world, other[0])
                                oa = o.args if o.op == "phi" else (o,)
                                for y in oa:
                                    y0 = arith_args(y, "Sub")[0] if arith_args(y, "Sub") is not None else y
                                    if roles.role(y0) != ("amount",):
                                        okv = False
                        if not okv:
                            bad.append("coin value is not (amount received) x %s rate: %s" % (src, show(val, 4)))
                    n_div += 1
                rep.ob("C03.c", "%s: amount minted on %s" % (name, tk), not bad and n_div > 0, "; ".join(bad) if bad else "floor(value / %s rate)" % tk,
                       where(v2.body, b2), key="C03.c | %s | %s" % (name, tk))
    # resync itself
    rb = prog.body(list(rc)[0]) if len(rc) == 1 else None
    if rb is None:
        rep.ob("C03.b", "resync rates", False, "anchor-lost: recompute functions %s" % sorted(rc))
    else:
        ret = world.ret_expr(rb)
        oks = world._ok_alts(ret, "ok", 0, False)
        for tk in TOK:
            forms = []
            for o in oks:
                rv = fo(world, world.ident(o, expand_ws=False), RATE[tk])
                for a in value_alts(world, rv):
                    if a.op == "call" and a.info.endswith("Decimal::from_ratio") and a not in forms:
                        forms.append((a, o))
            bad = []
            if not forms:
                bad.append("resync does not recompute the %s rate" % tk)
            for (fr, o) in forms[:1]:
                n_formula += 1
                num, den = fr.args
                pool = world.norm(fo(world, world.ident(o, expand_ws=False), POOLF[tk]), 0, False)
                if world.norm(num, 0, False) != pool:
                    bad.append("numerator is not the recomputed %s pool" % tk)
                dn = world.ident(den, expand_ws=False)
                if not (dn.op == "bin" and dn.info == "Add" and {roles.role(x) for x in dn.args} == {("supply", tk), ("batch", REQ[tk])}):
                    bad.append("denominator roles %s" % ([roles.role(x) for x in dn.args] if dn.args else show(dn, 3)))
            rep.ob("C03.b", "resync: %s rate formula operands" % tk, not bad, "; ".join(bad) if bad else "pool / (supply + requested)", where(rb), key="C03.b | resync | %s" % tk)
    rep.extra["formula_instances"] = n_formula

    # ---------------------------------------------------------------- C03.d
    for (name, hv, vs, tk0) in ctxs[:1]:
        finds = call_sites(sem, [hv], lambda k: k.endswith("Iterator::find"))
        finds = [f for f in finds if sem.label(f[2].args[0]) == ("info", "funds")]
        if len(finds) != 1:
            rep.ob("C03.d", "payment selection", False, "anchor-lost: expected one find over info.funds, found %d" % len(finds), where(hv.body))
            break
        fv, fbb, fe = finds[0]
        clo = world.ident(fe.args[1], expand_ws=False)
        cb = prog.bodies.get(clo.info) if clo.op == "closure" else None
        ok1 = ok2 = False
        if cb is not None:
            cbe = world.be(cb)
            ret = world.ident(world.ret_expr(cb), expand_ws=False)
            alts = ret.args if ret.op == "phi" else (ret,)
            cmp_alts = [a for a in alts if a.op == "bin" and a.info in ("Gt", "Lt", "Ne")]
            false_alts = [a for a in alts if a.op == "const" and a.info[:2] == ("scalar", 0)]
            ok2 = len(cmp_alts) == 1 and len(false_alts) == len(alts) - 1
            if ok2:
                c = cmp_alts[0]
                a0, a1 = [world.ident(x, expand_ws=False) for x in c.args]
                amt, zero = (a0, a1) if c.info in ("Gt", "Ne") else (a1, a0)
                ok2 = amt.op == "field" and amt.info[0] == "amount" and (zero.op == "call" and zero.info.endswith("::zero"))
                # the comparison is evaluated only under denom == coin denom
                pe = set()
                for blk in cb.blocks:
                    if blk.term.kind == "switch" and blk.idx in cbe.cfg.live:
                        for succ, fl in sem.edge_facts(cbe, blk.idx).items():
                            for f in fl:
                                if f[0] == "cmp" and f[1] == "Eq":
                                    xs = [world.ident(f[2], expand_ws=False), world.ident(f[3], expand_ws=False)]
                                    if any(x.op == "field" and x.info[0] == "denom" for x in xs) and any(x.op == "upvar" for x in xs):
                                        pe.add((blk.idx, succ))
                site = c.site[1] if c.site else None
                ok1 = bool(pe) and site is not None and site not in cbe.cfg.reach([0], removed=pe)
                up = world.ident(clo.args[0], expand_ws=False) if clo.args else None
                ok1 = ok1 and up is not None and roles.role(fv.resolve(up)) == ("params", "underlying_coin_denom")
        rep.ob("C03.d", "payment coin has the staking denom", ok1, "predicate tests denom == Parameters.underlying_coin_denom first: %s" % ok1, where(hv.body, fbb))
        rep.ob("C03.d", "payment coin amount > 0", ok2, "predicate result is (amount > 0) or false: %s" % ok2, where(hv.body, fbb))

        def fl1(f, resolve):
            if f[0] == "cmp" and f[1] == "Le":
                a = world.ident(resolve(f[2]), expand_ws=False)
                b = world.ident(f[3], expand_ws=False)
                return a.op == "call" and a.info.endswith("Vec::len") and sem.label(a.args[0]) == ("info", "funds") and b.op == "const" and b.info[:2] == ("scalar", 1)
            return False
        g, d = site_guarded(sem, fv, fbb, fl1)
        rep.ob("C03.d", "more than one coin is an error", g, d, where(hv.body, fbb))

    # ---------------------------------------------------------------- C03.e
    q = entry(prog, "hub", "query")
    qv = explore(sem, q, variant_env(prog, q, "State"))
    ALIAS = {"exchange_rate": "bsei_exchange_rate", "total_bond_amount": "total_bond_bsei_amount"}
    found = False
    for v in qv:
        for blk in v.body.blocks:
            if blk.idx not in v.blocks:
                continue
            for i, s in enumerate(blk.stmts):
                if s.kind == "assign" and s.rv.kind == "agg" and s.rv.j.get("adt", "").endswith("hub::StateResponse"):
                    found = True
                    e = v.be.ev_rvalue(blk.idx, i, s.rv)
                    for fname, fe2 in zip(e.info[2], e.args):
                        n = world.ident(fe2, expand_ws=False)
                        base = n.args[0] if n.op == "field" else None
                        if base is not None and base.op == "proj":
                            base = base.args[0]
                        ok = n.op == "field" and n.info[0] == ALIAS.get(fname, fname) and base is not None and base.op == "call" and base.info in rc
                        rep.ob("C03.e", "StateResponse.%s" % fname, ok, "from %s" % show(n, 3), where(v.body, blk.idx), key="C03.e | %s" % fname)
    if not found:
        rep.ob("C03.e", "State query", False, "anchor-lost: no StateResponse construction reachable from the State query")
    if n_formula < 9:
        rep.ob("C03.b", "formula instances", False, "anchor-lost: only %d recomputed-rate instances found (9 expected: bond 2, unbond 1, convert 4, resync 2)" % n_formula)
