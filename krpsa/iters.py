"""Iterator pipelines: one vocabulary for `for x in pipeline { .. }` loops and for closures handed to iterator adaptors.

An *item* is either the loop form  proj some(Iterator::next(phi(into_iter(P), out[next..])))  or the closure-parameter form
elem(P) (bound by callgraph.explore when a closure is the argument of an Iterator adaptor); P is the iterator expression."""
from .expr import E, find

ITEM_ADAPTORS_1 = ("map", "filter", "filter_map", "for_each", "take_while", "map_while", "skip_while", "any", "all", "find", "find_map",
                   "position", "inspect", "flat_map", "try_for_each")      # closure(item)
ITEM_ADAPTORS_2 = ("fold", "try_fold", "scan")                              # closure(acc, item)
TRANSPARENT = ("iter", "into_iter", "iter_mut", "deref", "deref_mut", "as_slice", "as_ref", "borrow", "by_ref", "peekable", "fuse", "cloned", "copied")
ORDER_ONLY = ("rev",)
DROPPING = ("filter", "take_while", "map_while", "skip_while", "skip", "take", "step_by", "filter_map")


def last(name):
    return name.rsplit("::", 1)[-1] if isinstance(name, str) else ""


def mk_item(world, recv):
    """the closure-parameter item of iterator expression `recv`: elem(canonical source) where the canonical source has the adaptors
    that neither change nor renumber the entries (iter, filter, take_while, ..) stripped, so that the item of a `filter` closure and
    the item of the `map` closure after it are the same expression; the full pipeline is kept aside (site tag) for droppers()"""
    x = world.ident(recv, expand_ws=False)
    while x.op == "call" and world.callee_body(x) is None and x.args and (last(x.info) in TRANSPARENT or last(x.info) in DROPPING and last(x.info) != "filter_map"):
        x = world.ident(x.args[0], expand_ws=False)
    return E("elem", (x,), None, ("pipe", recv))


def item_source(world, x):
    """the iterator expression an item expression is drawn from, or None"""
    x = world.ident(x, expand_ws=False)
    if x.op == "elem":
        if isinstance(x.site, tuple) and len(x.site) == 2 and x.site[0] == "pipe":
            return x.site[1]
        return x.args[0]
    if (x.op == "proj" and x.info == "some") or (x.op == "call" and last(x.info) == "next"):
        c = world.ident(x.args[0], expand_ws=False) if x.op == "proj" else x
        if c.op == "call" and last(c.info) == "next" and c.args:
            it = world.ident(c.args[0], expand_ws=False)
            if it.op == "phi":
                alts = [a for a in it.args if a.op not in ("out", "rec")]
                if len(alts) == 1:
                    it = world.ident(alts[0], expand_ws=False)
            return it
    return None


def pipeline(world, it, depth=0):
    """(adaptors outermost first as (name, call expr), base collection expression)"""
    ads = []
    x = world.ident(it, expand_ws=False)
    while x.op == "call" and depth < 40:
        nm = last(x.info)
        if world.callee_body(x) is not None or not x.args:
            break
        if nm in TRANSPARENT or nm in ORDER_ONLY:
            if nm in ORDER_ONLY:
                ads.append((nm, x))
        elif nm in ("enumerate", "zip", "chain") or nm in DROPPING or nm in ("map",):
            ads.append((nm, x))
            if nm == "zip" or nm == "chain":
                break
        else:
            break
        x = world.ident(x.args[0], expand_ws=False)
        depth += 1
    return ads, x


def base_of(world, it):
    """the collection an iterator expression walks (transparent adaptors, enumerate and droppers stripped); None across map / zip"""
    ads, b = pipeline(world, it)
    for nm, _ in ads:
        if nm in ("map", "zip", "chain"):
            return None
    return b


def nth_of(world, e):
    """if e denotes 'the entry at the current position of list L' returns (L, position token); position tokens are equal for
    expressions taken at the same position of the same iteration.  Forms:
        L[i]                              -> (L, ('idx', i))            (i normalised: field 0 of an enumerate item -> that item)
        item.1 of enumerate(iter(L))      -> (L, ('item', item))
        item.0 / item.1 of zip(A, B)      -> (A | B, ('item', item))
        item   of iter(L)                 -> (L, ('item', item))"""
    x = world.ident(e, expand_ws=False)
    if x.op == "call" and x.info == "std::ops::Index::index" and len(x.args) == 2:
        i = world.ident(x.args[1], expand_ws=False)
        if i.op == "field" and i.info[0] == "0":
            src = item_source(world, i.args[0])
            # (normalised expressions have identity adaptors such as enumerate / iter stripped: an index that is component 0 of an
            # item can only be the enumerate counter)
            if src is not None and not any(nm in ("zip", "map") for nm, _ in pipeline(world, src)[0]):
                return strip_coll(world, x.args[0]), ("item", world.ident(i.args[0], expand_ws=False))
        return strip_coll(world, x.args[0]), ("idx", i)
    if x.op == "field" and x.info[0] in ("0", "1"):
        item = world.ident(x.args[0], expand_ws=False)
        src = item_source(world, item)
        if src is not None:
            ads, b = pipeline(world, src)
            names = [nm for nm, _ in ads]
            if names and names[-1] == "zip" and "map" not in names:
                z = ads[-1][1]
                side = z.args[int(x.info[0])]
                sb = base_of(world, side)
                if sb is not None:
                    return strip_coll(world, sb), ("item", item)
            if "map" not in names and "zip" not in names and x.info[0] == "1":
                return strip_coll(world, b), ("item", item)
    src = item_source(world, x)
    if src is not None:
        b = base_of(world, src)
        if b is not None:
            return strip_coll(world, b), ("item", x)
    return None


def strip_coll(world, x):
    x = world.ident(x, expand_ws=False)
    while x.op == "call" and last(x.info) in TRANSPARENT + ("clone", "to_vec") and x.args and world.callee_body(x) is None:
        x = world.ident(x.args[0], expand_ws=False)
    return x


def droppers(world, it):
    """adaptors between the collection and the consumer that may drop or cut entries: [(name, call expr)]"""
    out = []
    ads, b = pipeline(world, it)
    for nm, c in ads:
        if nm in DROPPING:
            out.append((nm, c))
        if nm == "zip":
            for side in c.args[:2]:
                out.extend(droppers(world, side))
    return out


def drops_only_zero(world, prog, dropper, field=None):
    """is the dropper `filter(|item| !item[.field].is_zero())` (keeps exactly the non-zero entries)?"""
    nm, c = dropper
    if nm != "filter" or len(c.args) < 2 or c.args[1].op != "closure":
        return False
    fb = prog.bodies.get(c.args[1].info)
    if fb is None:
        return False
    pr = world.norm(world.ret_expr(fb), 0, False)
    if not (pr.op == "un" and pr.info == "Not" and pr.args[0].op == "call" and pr.args[0].info.endswith("::is_zero")):
        return False
    a0 = world.ident(pr.args[0].args[0], expand_ws=False)
    if field is None:
        return (a0.op == "param" and a0.info[1] == 2) or (a0.op == "field" and a0.args[0].op == "param" and a0.args[0].info[1] == 2)
    return a0.op == "field" and a0.info[0] == field and a0.args[0].op == "param" and a0.args[0].info[1] == 2


def true_facts(sem, body):
    """edge facts that hold whenever the bool-returning closure / function `body` returns true: facts of the switch edges every
    true-capable return site lies behind, plus the returned expression itself being true (in the body's own terms)"""
    w = sem.w
    be = w.be(body)
    cfg = be.cfg
    sites = []
    for d in be.defs_by_local.get(0, []):
        if d.path or d.bb not in cfg.live:
            continue
        v = w.ident(be.def_value(d), expand_ws=False)
        alts = v.args if v.op == "phi" else (v,)
        for a in alts:
            if a.op == "const" and a.info[0] == "scalar" and a.info[1] == 0:
                continue
            sites.append((d.bb, a))
    if not sites:
        return []
    common = None
    for (bb, a) in sites:
        fs = []
        for blk in body.blocks:
            if blk.term.kind == "switch" and blk.idx in cfg.live:
                for succ, fl in sem.edge_facts(be, blk.idx).items():
                    if bb not in cfg.reach([0], removed={(blk.idx, succ)}) and len(cfg.succ[blk.idx]) > 1:
                        # (u,succ) is the only way to bb only if the other out-edges cannot reach it
                        others = [(blk.idx, s2) for s2 in cfg.succ[blk.idx] if s2 != succ]
                        fs.extend(fl)
        if not (a.op == "const"):
            truth, x = True, a
            while x.op == "un" and x.info == "Not":
                truth, x = (not truth), w.ident(x.args[0], expand_ws=False)
            fs.append(sem._norm_bool(x, truth))
        common = fs if common is None else [f for f in common if f in fs]
    return common or []
