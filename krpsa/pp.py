"""Readable dump of extracted MIR: python3 -m krpsa.pp <facts_dir> <path-substring> [--promoted]"""
import sys
from .ir import Program


def dump(body, out=sys.stdout, promoted=True):
    w = out.write
    w("fn %s  [%s:%d-%d] kind=%s args=%d ret=%s\n" % (body.path, body.file, body.line, body.line_hi, body.kind, body.arg_count, body.ret_ty))
    for name, pl, arg in body.debug:
        w("    debug %s => %r  : %s\n" % (name, pl, body.local_tys[pl.local] if pl.is_local() else ""))
    for b in body.blocks:
        w("  bb%d%s:\n" % (b.idx, " (cleanup)" if b.cleanup else ""))
        for s in b.stmts:
            w("      %r;   // L%d%s\n" % (s, s.line, " mac" if s.mac else ""))
        w("      %r;   // L%d%s\n" % (b.term, b.term.line, " mac" if b.term.mac else ""))
    if promoted:
        for p in body.promoted:
            w("  -- promoted[%d]:\n" % p.pidx)
            for b in p.blocks:
                for s in b.stmts:
                    w("      %r;\n" % (s,))
                w("      %r;\n" % (b.term,))


if __name__ == "__main__":
    prog = Program(sys.argv[1])
    pat = sys.argv[2]
    for p, b in prog.bodies.items():
        if pat in p and (("--all" in sys.argv) or not b.derive):
            dump(b, promoted="--no-promoted" not in sys.argv)
            print()
