"""C01 - matured unbond claims funded and paid exactly once: structural clauses (DESIGN 6, C01)."""
from ..callgraph import explore, storage_effects, message_effects, site_guarded, call_sites, written_value_in
from ..expr import show, find, arith_args
from .common import entry, variant_env, stored, where, arm_handler
from .hub_common import (release_loops, release_guard_preds, history_readers, history_writers, subtree, early_exits,
                         PARAMS, STATE, NEWWAIT, HISTORY)
from .msgs import vec_elems, coin_parts, is_zero_fact

TOK = ("bsei", "stsei")


def run(prog, world, sem, rep):
    rep.rule("C01.a", "released-only: in the function computing the payable amount every accumulation happens only after `released` of the history "
             "entry with the same batch key as the wait-list entry being summed was observed true", 1)
    rep.rule("C01.b", "pay <=> delete: a batch id is queued for removal exactly where its share is added; the handler cannot succeed without "
             "calling the wait-list remover with that id list for info.sender; the remover deletes every listed id unconditionally", 5)
    rep.rule("C01.c", "share pairing: each product multiplies UnbondWaitEntity.X_amount with UnbondHistory.X_withdraw_rate of the same X", 2)
    rep.rule("C01.d", "payout wiring: coin denom = Parameters.underlying_coin_denom = denom of the balance query on the hub's own address; recipient = "
             "info.sender; State.prev_hub_balance := checked_sub(that balance, amount paid)", 4)
    rep.rule("C01.e", "ordering: the rate-processing function runs before the payable amount is computed; a zero payable amount fails before "
             "any claim is removed", 2)
    rep.rule("C01.f", "release-group agreement: the loop summing the newly matured batches and the loop releasing them both start at "
             "State.last_processed_batch + 1 and both continue exactly while entry exists / time <= now - unbonding_period / not released", 8)
    rep.rule("C01.g", "per-token pairing of the withdraw-rate computation: (amount, previous rate, group total, slashed amount) all of the same "
             "token and the result stored into that token's withdraw rate", 2)
    rep.rule("C01.i", "every claim of the caller is examined: the loop over the caller's wait-list entries in the payable function leaves only when "
             "the entries are exhausted (or on an error), never early", 1)
    rep.rule("C01.j", "rounding against the claimants in the withdraw-rate computation: whenever the group lost coins (loss != 0) the share of the loss "
             "subtracted from a batch is floor(weight x loss) + 1; a surplus is only ever credited as (floor(weight x surplus) - 1) or 0 - so the "
             "claims of the batches released together never add up to more than what arrived", 2)
    rep.rule("C01.h", "arrived coins: the amount distributed over the released batches is (hub balance passed by the handler) - "
             "State.prev_hub_balance; a negative difference is an error before anything is released", 2)

    ex = entry(prog, "hub")
    vs = explore(sem, ex, variant_env(prog, ex, "WithdrawUnbonded"))
    h = arm_handler(sem, vs)
    msgs = [(v, bb, e) for (v, bb, i, e) in message_effects(sem, vs) if e.info[0].endswith("BankMsg") and e.info[1] == "Send"]
    if len(msgs) != 1:
        rep.ob("C01.d", "single payout", False, "anchor-lost: expected one BankMsg::Send on the withdraw path, found %d" % len(msgs), where(h.body))
        return
    mv, mbb, send = msgs[0]
    d = dict(zip(send.info[2], send.args))
    elems = vec_elems(world, d["amount"]) or []
    amt, denom = coin_parts(world, sem, elems[0]) if len(elems) == 1 else (None, None)
    paid = world.ident(amt, expand_ws=False) if amt is not None else None
    # the payable function: paid = f(..)!ok.0
    pay_call = None
    if paid is not None and paid.op == "field":
        # component 0 of an (amount, ids) tuple, or a named field of a small result struct
        c = paid.args[0]
        if c.op == "proj":
            c = c.args[0]
        if c.op == "call" and world.callee_body(c) is not None:
            pay_call = c
    if pay_call is None:
        rep.ob("C01.a", "payable function", False, "anchor-lost: the amount sent is not a component of a workspace function's result: %s" % (show(paid, 4) if paid else None), where(mv.body, mbb))
        return
    pv = [v for v in vs if v.body.path == pay_call.info and v.parent is not None and v.parent[0] is h]
    pv = pv[0]
    readers = history_readers(sem, vs)
    writers = history_writers(sem, vs)

    # ---------------------------------------------------------------- C01.d
    rep.ob("C01.d", "coin denom", sem.label(denom) == stored(PARAMS, "underlying_coin_denom"), "denom %s" % (sem.label(denom),), where(mv.body, mbb))
    rep.ob("C01.d", "recipient", sem.label(d["to_address"]) == ("sender",), "to %s" % (sem.label(d["to_address"]),), where(mv.body, mbb))
    BAL = ("balance", ("self",), stored(PARAMS, "underlying_coin_denom"), ("amount",))
    sw = [(v, bb, kind, val) for (v, bb, kind, cell, k, val, e) in storage_effects(sem, vs) if cell == STATE and kind in ("write", "update") and v.parent and (v is h or v.parent[0] is h) and v.body.path not in (pay_call.info,)]
    okp = False
    det = "no State write in the handler"
    for (v, bb, kind, val) in sw:
        if v is not h:
            continue
        wv = written_value_in(sem, vs, v, kind, STATE, val)
        pb = world.ident(sem.field_of(wv, "prev_hub_balance"), expand_ws=False) if wv is not None else None
        pa = arith_args(pb, "Sub")
        if pa is not None:
            okp = sem.label(pa[0]) == BAL and world.ident(pa[1], expand_ws=False) == paid
            det = "prev_hub_balance := %s - %s" % (sem.label(pa[0]), show(pa[1], 3))
        else:
            det = "prev_hub_balance := %s" % (show(pb, 4) if pb is not None else None)
        # (last_processed_batch is the release cursor: its writes are governed by C08.d wherever they happen)
        others = [f for f in ("total_bond_bsei_amount", "total_bond_stsei_amount", "bsei_exchange_rate", "stsei_exchange_rate", "last_unbonded_time")
                  if sem.labels(sem.field_of(wv, f)) != {stored(STATE, f)}]
        if others:
            okp = False
            det += "; also changes %s" % others
    rep.ob("C01.d", "recorded hub balance := balance - paid", okp, det, where(h.body))
    addr_l = sem.label(h.resolve(pay_call.args[1])) if len(pay_call.args) > 1 else None
    rep.ob("C01.d", "payable amount computed for info.sender", addr_l == ("sender",), "address %s" % (addr_l,), where(h.body))

    # ---------------------------------------------------------------- C01.a / C01.b / C01.c (inside the payable function)
    ret = world.ret_expr(pv.body)
    oks = world._ok_alts(ret, "ok", 0, False)
    tup = [world.ident(x, expand_ws=False) for x in oks]
    tup = [t for t in tup if (t.op == "tuple" or (t.op == "adt" and not t.info[1])) and len(t.args) == 2]
    if len(tup) != 1:
        rep.ob("C01.a", "payable result", False, "anchor-lost: result of %s is not one (amount, ids) pair" % pv.body.path, where(pv.body))
        return
    names = [str(i) for i in range(2)] if tup[0].op == "tuple" else list(tup[0].info[2])
    if paid.info[0] not in names:
        rep.ob("C01.a", "payable result", False, "anchor-lost: the amount paid (%s) is not a component of the result of %s" % (paid.info[0], pv.body.path), where(pv.body))
        return
    ti = names.index(paid.info[0])
    total, ids = tup[0].args[ti], tup[0].args[1 - ti]
    ids_field = names[1 - ti]
    adds = [a for a in find(total, lambda y: y.op == "bin" and y.info == "Add" and y.site and y.site[0] == pv.body.path and any(z.op == "rec" for z in y.args))]
    pushes = [a for a in find(ids, lambda y: y.op == "out" and y.info[0].endswith("Vec::push") and y.site and y.site[0] == pv.body.path)]
    if len(adds) != 1 or len(pushes) != 1:
        rep.ob("C01.a", "accumulation site", False, "anchor-lost: %d accumulation(s), %d id push(es) in %s" % (len(adds), len(pushes), pv.body.path), where(pv.body))
        return
    add, push = adds[0], pushes[0]
    share = [z for z in add.args if z.op != "rec"][0]
    key = world.ident(push.args[-1], expand_ws=False)  # the batch id queued for removal
    keyn = world.norm(key, 0, False)

    def released_fact(f, resolve):
        if f[0] == "truth" and f[2] is True and f[1].op == "field" and f[1].info[0] == "released":
            b = f[1].args[0]
            if b.op == "proj":
                b = b.args[0]
            return b.op == "call" and b.info in readers and world.norm(b.args[1], 0, False) == keyn
        return False
    be = pv.be
    pe = set()
    for blk in pv.body.blocks:
        if blk.term.kind == "switch" and blk.idx in be.cfg.live:
            for succ, fl in sem.edge_facts(be, blk.idx).items():
                if any(released_fact(f, pv.resolve) for f in fl):
                    pe.add((blk.idx, succ))
    reach = be.cfg.reach([0], removed=pe)
    rep.ob("C01.a", "share added only for a released batch of the same key", bool(pe) and add.site[1] not in reach,
           "accumulation at line %d reachable without observing released == true of the entry keyed by the summed batch" % pv.body.blocks[add.site[1]].term.line
           if add.site[1] in reach or not pe else "accumulation behind released == true of history[%s]" % show(key, 3), where(pv.body, add.site[1]))
    # key of the wait entry = key of the history entry: both from the same iterator item
    item0 = world.norm(key, 0, False)
    # (the sum of products may be computed by a pure helper / method such as UnbondHistory::claim_value: looked through)
    sh = world.ident(share, expand_ws=False)
    for _ in range(3):
        if sh.op == "call" and world.callee_body(sh) is not None and world.is_pure(world.callee_body(sh)):
            sh = world.ident(world.expand(sh), expand_ws=False)
    prods = [p for p in find(world.norm(sh, 0, False), lambda y: y.op == "bin" and y.info == "Mul")]
    okc = len(prods) == 2
    det = []
    seen_tok = set()
    for p in prods:
        toks = set()
        for o in p.args:
            o = world.ident(o, expand_ws=False)
            if o.op == "field" and o.info[0].endswith("_amount"):
                toks.add(("amount", o.info[0].split("_")[0]))
                src = world.norm(o.args[0], 0, False)
                # the wait entry must come from the same iterator item as the key
                if not find(item0, lambda y: y.op == "field" and y.info[0] == "0" and y.args[0] == src.args[0] if (src.op == "field" and src.info[0] == "1") else False):
                    okc = False
                    det.append("amount not taken from the entry whose key is used for the history lookup")
            elif o.op == "field" and o.info[0].endswith("_withdraw_rate"):
                toks.add(("rate", o.info[0].split("_")[0]))
                b = o.args[0]
                if b.op == "proj":
                    b = b.args[0]
                if not (b.op == "call" and b.info in readers and world.norm(b.args[1], 0, False) == keyn):
                    okc = False
                    det.append("rate not taken from history[key]")
        names = {t for _, t in toks}
        if len(toks) != 2 or len(names) != 1:
            okc = False
            det.append("product pairs %s" % sorted(toks))
        else:
            seen_tok |= names
    rep.ob("C01.c", "products pair amount and withdraw rate of the same token", okc and seen_tok == set(TOK), "; ".join(det) if det else "bsei x bsei rate + stsei x stsei rate", where(pv.body, add.site[1]))
    rep.ob("C01.c", "wait entry and history entry share the batch key", okc, "; ".join(det) if det else "both derived from one bucket item", where(pv.body))
    ee = early_exits(sem, pv, add.site[1])
    rep.ob("C01.i", "payable loop visits every wait-list entry", ee == [],
           "the loop over the caller's claims can be left early towards a success exit (lines %s): matured claims after that point are neither paid nor removed" % [l for _, _, l in ee]
           if ee else ("no early exit" if ee == [] else "anchor-lost: accumulation is not inside a loop"), where(pv.body, add.site[1]))
    # C01.b queue-for-removal paired with the accumulation
    pb = push.site[1]
    ab = add.site[1]
    # per loop iteration the share is added iff the id is queued, in either order: whichever of the two comes first (dominates the other)
    # is always followed by the second before the iteration ends, and the second is never reached again without the first
    cfg = be.cfg
    if pb == ab or cfg.dominates(ab, pb):
        first, second = ab, pb
    elif cfg.dominates(pb, ab):
        first, second = pb, ab
    else:
        first, second = None, None
    escapes = []
    if first is not None and first != second:
        after_first = cfg.reach(cfg.succ[first], stop={second})
        escapes = [b for b in after_first if b != second and (b in cfg.exits() or b == first)]
        after_second = cfg.reach(cfg.succ[second], stop={first})
        if second in after_second:
            escapes.append(second)
    paired = first is not None and (pb not in reach) and (ab not in reach)
    rep.ob("C01.b", "batch id queued for removal exactly where its share is added", paired and not escapes and world.ident(push.args[-1], expand_ws=False) == key,
           "within one pass over a claim, adding its share and queuing its batch id for removal do not always go together (blocks %s)" % sorted(set(escapes)) if escapes or not paired
           else "share and removal id go together behind the same released test, same key", where(pv.body, pb))

    # handler level: remover call
    removers = set()
    for v in vs:
        for (bb, kind, cell, k, val, e) in sem.storage_sites(v.be):
            if cell == NEWWAIT and kind == "remove" and bb in v.blocks:
                removers.add(v.body.path)
    rc = [(v, bb, e) for (v, bb, e) in call_sites(sem, [h], lambda k: k in removers)]
    if len(rc) != 1:
        rep.ob("C01.b", "remover call", False, "expected exactly one call of the wait-list remover in the handler, found %d" % len(rc), where(h.body))
    else:
        rv, rbb, re_ = rc[0]
        idl = None
        for a in re_.args:
            ai = world.ident(a, expand_ws=False)
            if ai.op == "field" and ai.info[0] == ids_field:
                b = ai.args[0]
                if b.op == "proj":
                    b = b.args[0]
                if b == pay_call or (b.op == "call" and b.info == pay_call.info):
                    idl = a
        rep.ob("C01.b", "remover gets the id list computed with the payable amount", idl is not None, "remover args %s" % [show(a, 3) for a in re_.args], where(h.body, rbb))
        al = [sem.label(a) for a in re_.args]
        rep.ob("C01.b", "remover called for info.sender", ("sender",) in al, "remover argument labels %s" % al, where(h.body, rbb))
        hbe = h.be
        okret = [bb for (bb, idx, kind, x) in sem.ret_sites(hbe) if kind == "ok" and bb in h.blocks]
        no_rm = hbe.cfg.reach([0], stop={rbb})
        # the `?` on the remover: success requires its Ok edge
        cont = set()
        for blk in h.body.blocks:
            if blk.term.kind == "switch" and blk.idx in hbe.cfg.live:
                for succ, fl in sem.edge_facts(hbe, blk.idx).items():
                    for f in fl:
                        if f[0] == "variant" and f[2] == "Ok" and f[1].op == "call" and f[1].info in removers:
                            cont.add((blk.idx, succ))
        r2 = hbe.cfg.reach([0], removed=cont)
        rep.ob("C01.b", "no success without a successful removal", bool(okret) and bool(cont) and not any(b in r2 for b in okret),
               "the handler can return Ok without the remover having succeeded" if (not cont or any(b in r2 for b in okret)) else "Ok exit only behind the remover's `?`", where(h.body, rbb))
    # inside the remover: every listed id is removed
    for v in vs:
        if v.body.path in removers and v.parent and v.parent[0] is h:
            be2 = v.be
            rms = [(bb, key2) for (bb, kind, cell, key2, val, e) in sem.storage_sites(be2) if cell == NEWWAIT and kind == "remove"]
            ok = len(rms) == 1
            det = "remove sites %d" % len(rms)
            if ok:
                rbb2, key2 = rms[0]
                kn = world.norm(key2)
                from_list = find(kn, lambda y: y.op == "call" and y.info.endswith("Iterator::next"))
                lab_ok = False
                for it in from_list:
                    ps = find(it, lambda y: y.op == "param")
                    lab_ok = lab_ok or any("Vec<u64" in p.info[3] or "[u64]" in p.info[3] for p in ps)
                # unconditional in the loop body: from the Some edge of the iterator every path passes the remove
                heads = []
                for blk in v.body.blocks:
                    if blk.term.kind == "switch" and blk.idx in be2.cfg.live:
                        for succ, fl in sem.edge_facts(be2, blk.idx).items():
                            for f in fl:
                                if f[0] == "variant" and f[2] == "Some" and f[1].op == "call" and f[1].info.endswith("Iterator::next"):
                                    heads.append((blk.idx, succ))
                skip = False
                for (hb, succ) in heads:
                    r3 = be2.cfg.reach([succ], stop={rbb2})
                    if hb in r3 or any(b in be2.cfg.exits() for b in r3 if _ok_exit(sem, be2, b)):
                        skip = True
                ok = lab_ok and bool(heads) and not skip
                det = "key from the id-list parameter: %s; removal unconditional per element: %s" % (lab_ok, not skip)
            rep.ob("C01.b", "remover deletes every listed id", ok, det, where(v.body))

    # ---------------------------------------------------------------- C01.e
    rate_fns = [v for v in vs if v.parent and v.parent[0] is h and v.body.kind != "closure" and any(w2.body.path in writers or w2.body.path == v.body.path for w2 in subtree(vs, v) if any(c == HISTORY and k == "write" for (_, k, c, _, _, _) in sem.storage_sites(w2.be)))]
    ok = False
    det = "anchor-lost: rate-processing call not found in the handler"
    if rate_fns:
        rb = rate_fns[0].parent[1]
        pbb = pv.parent[1]
        ok = h.be.cfg.dominates(rb, pbb)
        # and its `?`: payable computation only after success
        det = "rate processing (line %d) %s the payable computation (line %d)" % (h.body.blocks[rb].term.line, "dominates" if ok else "does not dominate", h.body.blocks[pbb].term.line)
    rep.ob("C01.e", "rates are processed before the payable amount is computed", ok, det, where(h.body))
    if rc and len(rc) == 1:
        def fz(f, resolve):
            return is_zero_fact(world, f, resolve, world.ident(amt))
        g, dd = site_guarded(sem, h, rc[0][1], fz)
        rep.ob("C01.e", "zero payable amount fails before any claim is removed", g, dd, where(h.body, rc[0][1]))

    # ---------------------------------------------------------------- C01.f
    loops = release_loops(sem, vs)
    if len(loops) != 2:
        rep.ob("C01.f", "release-group loops", False, "anchor-lost: expected the summing and the releasing loop, found %d" % len(loops), where(h.body))
    for (lv, rbb, lkey, body_calls) in loops:
        kn = world.norm(lv.resolve(lkey))
        alts = kn.args if kn.op == "phi" else (kn,)
        starts = [a for a in alts if not find(a, lambda y: y.op == "rec")]
        steps = [a for a in alts if find(a, lambda y: y.op == "rec")]

        def plus1(a, base_pred):
            return a.op == "bin" and a.info == "Add" and any(x.op == "const" and x.info[:2] == ("scalar", 1) for x in a.args) and any(base_pred(x) for x in a.args)
        ok = len(starts) == 1 and plus1(starts[0], lambda x: sem.label(x) == stored(STATE, "last_processed_batch")) and \
            len(steps) == 1 and plus1(steps[0], lambda x: x.op == "rec")
        rep.ob("C01.f", "%s starts at last_processed_batch + 1 and steps by 1" % lv.body.path.split("::")[-1], ok, "key alternatives %s" % [show(a, 3) for a in alts], where(lv.body, rbb))
        preds = release_guard_preds(sem, lv, lkey, readers)
        be3 = lv.be
        for name, fp in preds.items():
            pe3 = set()
            for blk in lv.body.blocks:
                if blk.term.kind == "switch" and blk.idx in be3.cfg.live:
                    for succ, fl in sem.edge_facts(be3, blk.idx).items():
                        if any(fp(f, lv.resolve) for f in fl):
                            pe3.add((blk.idx, succ))
            r4 = be3.cfg.reach([rbb], removed=pe3 | set(lv.removed))
            bad = [lv.body.blocks[b].term.line for b in body_calls if b in r4]
            rep.ob("C01.f", "%s continues only while entry %s" % (lv.body.path.split("::")[-1], name), bool(pe3) and not bad,
                   "loop body reachable without `%s` (lines %s)" % (name, bad) if bad or not pe3 else "body behind the observation", where(lv.body, rbb),
                   key="C01.f | %s | %s" % (lv.body.path, name))

    # ---------------------------------------------------------------- C01.g / C01.h
    rel = [(lv, rbb, lkey, bc) for (lv, rbb, lkey, bc) in loops if any((lambda e: e.op == "call" and e.info in writers)(lv.be.ev_call(b, lv.body.blocks[b].term)) for b in bc)]
    summ = [(lv, rbb, lkey, bc) for (lv, rbb, lkey, bc) in loops if (lv, rbb, lkey, bc) not in rel]
    if len(rel) == 1 and len(summ) == 1:
        lv = rel[0][0]
        sv = summ[0][0]
        # which component of the summing result belongs to which token
        sret = world.ident(world.ret_expr(sv.body), expand_ws=False)
        comp_tok = {}   # component of the summing result (tuple index or struct field name) -> token
        comps = []
        if sret.op == "tuple":
            comps = [(str(i), c) for i, c in enumerate(sret.args)]
        elif sret.op == "adt" and sret.info[2]:
            comps = list(zip(sret.info[2], sret.args))
        for nm0, c in comps:
            names = {y.info[0].split("_")[0] for y in find(world.norm(c), lambda y: y.op == "field" and (y.info[0].endswith("_amount") or y.info[0].endswith("_withdraw_rate")))}
            if len(names) == 1:
                comp_tok[nm0] = names.pop()
        wb = [b for b in rel[0][3] if (lambda e: e.op == "call" and e.info in writers)(lv.be.ev_call(b, lv.body.blocks[b].term))][0]
        we = lv.be.ev_call(wb, lv.body.blocks[wb].term)
        hv = world.ident(we.args[2], expand_ws=False)
        dd = dict(zip(hv.info[2], hv.args)) if hv.op == "adt" else {}
        for tk in TOK:
            r = world.ident(dd.get("%s_withdraw_rate" % tk), expand_ws=False) if dd else None
            ok = False
            det = "new %s withdraw rate: %s" % (tk, show(r, 3) if r is not None else None)
            if r is not None and r.op == "call" and world.callee_body(r) is not None and len(r.args) == 4:
                a_amt, a_rate, a_tot, a_sl = [world.ident(x, expand_ws=False) for x in r.args]
                c1 = a_amt.op == "field" and a_amt.info[0] == "%s_amount" % tk
                c2 = a_rate.op == "field" and a_rate.info[0] == "%s_withdraw_rate" % tk
                c3 = a_tot.op == "field" and comp_tok.get(a_tot.info[0]) == tk
                c4 = False
                if a_sl.op == "field" and a_sl.args[0].op == "call" and world.callee_body(a_sl.args[0]) is not None and world.is_pure(world.callee_body(a_sl.args[0])):
                    # the slashed amounts may come out of a pure helper / method returning a small struct: looked through
                    from ..expr import E as _E, simplify as _simp
                    a_sl = world.ident(_simp(_E("field", (world.expand(a_sl.args[0]),), a_sl.info)), expand_ws=False)
                if a_sl.op == "call" and a_sl.info.endswith("from_subtraction"):
                    first = world.ident(a_sl.args[0], expand_ws=False)
                    c4 = first == a_tot
                ok = c1 and c2 and c3 and c4
                det = "amount:%s rate:%s total-component:%s slashed-from-same-total:%s" % (c1, c2, c3, c4)
            rep.ob("C01.g", "%s withdraw-rate arguments are all %s" % (tk, tk), ok, det, where(lv.body, wb))
            if r is not None and r.op == "call" and world.callee_body(r) is not None and len(r.args) == 4:
                rounding_rule(prog, world, sem, rep, world.callee_body(r), tk)
        # C01.h
        fs = [e for (_, _, e) in call_sites(sem, [lv], lambda k: k.endswith("SignedInt::from_subtraction"))]
        arr = None
        for e in fs:
            if sem.label(e.args[0]) == ("balance", ("self",), stored(PARAMS, "underlying_coin_denom"), ("amount",)) and sem.label(e.args[1]) == stored(STATE, "prev_hub_balance"):
                arr = e
        rep.ob("C01.h", "arrived coins = hub balance - recorded balance", arr is not None,
               "from_subtraction operands %s" % [(sem.label(e.args[0]), sem.label(e.args[1])) for e in fs][:3], where(lv.body))
        if arr is not None:
            def fneg(f, resolve):
                if f[0] == "truth" and f[2] is False:
                    x = world.ident(resolve(f[1]), expand_ws=False)
                    return x.op == "field" and x.info[0] == "1" and world.ident(x.args[0], expand_ws=False) == world.ident(arr, expand_ws=False)
                return False
            g, d3 = site_guarded(sem, lv, wb, fneg)
            rep.ob("C01.h", "negative balance change is an error before anything is released", g, d3, where(lv.body, wb))
    else:
        rep.ob("C01.g", "withdraw-rate computation", False, "anchor-lost: summing / releasing loops not identified")


def rounding_rule(prog, world, sem, rep, rb, tk):
    """C01.j on the withdraw-rate function rb(amount, previous rate, group total, (difference, is_surplus))"""
    memo = rep.__dict__.setdefault("_c01j_done", set())
    from .C03 import through_pure
    be = world.be(rb)
    one = ("const", "lib", "Uint256::one")

    def is_one(x):
        x = world.ident(x, expand_ws=False)
        return sem.label(x) == one or (x.op == "call" and x.info.endswith("::one")) or (x.op == "const" and x.info[0] == "scalar" and x.info[1] == 1)

    def alts(x, depth=0):
        x = through_pure(world, x)
        if x.op == "phi" and depth < 6:
            return [y for a in x.args for y in alts(a, depth + 1)]
        return [x]
    # the loss parameter: component 0 of the 4th parameter; edges on which it was observed zero
    def loss_zero(f):
        if f[0] == "cmp" and f[1] == "Eq":
            for a, b in ((f[2], f[3]), (f[3], f[2])):
                a0 = world.ident(a, expand_ws=False)
                while a0.op == "call" and a0.info.rsplit("::", 1)[-1] in ("u128", "from", "into") and a0.args:
                    a0 = world.ident(a0.args[0], expand_ws=False)
                b0 = world.ident(b, expand_ws=False)
                if a0.op == "field" and a0.info[0] == "0" and a0.args[0].op == "param" and a0.args[0].info[1] == 4 and \
                        (b0.op == "const" and b0.info[1] == 0 or (b0.op == "call" and b0.info.endswith("::zero"))):
                    return True
        if f[0] == "truth" and f[2] is True and f[1].op == "call" and f[1].info.endswith("::is_zero"):
            a0 = world.ident(f[1].args[0], expand_ws=False)
            return a0.op == "field" and a0.info[0] == "0" and a0.args[0].op == "param" and a0.args[0].info[1] == 4
        return False
    removed = set()
    for blk in rb.blocks:
        if blk.cleanup or blk.term.kind != "switch" or blk.idx not in be.cfg.live:
            continue
        for succ, fl in sem.edge_facts(be, blk.idx).items():
            if any(loss_zero(f) for f in fl):
                removed.add((blk.idx, succ))
    bes = world.be_spec(rb, frozenset(removed))
    subs = []
    adds = []
    for blk in rb.calls():
        if blk.idx not in bes.cfg.live:
            continue
        e = bes.ev_call(blk.idx, blk.term)
        if e.op == "call" and e.info.endswith("from_subtraction") and len(e.args) == 2:
            subs.append((blk.idx, e))
    if len(subs) != 1:
        rep.ob("C01.j", "%s: loss share" % tk, False, "anchor-lost: expected one signed subtraction (batch amount - loss share) in %s, found %d" % (rb.path, len(subs)), where(rb))
        return
    bb, e = subs[0]
    unb = world.ident(e.args[0], expand_ws=False)
    bad = []
    for a in alts(e.args[1]):
        aa = arith_args(a, "Add")
        if not (aa is not None and (is_one(aa[0]) or is_one(aa[1]))):
            bad.append(show(a, 3))
    rep.ob("C01.j", "%s: a loss is rounded up (+1) whenever the group lost coins" % tk, not bad,
           "with loss != 0 the share subtracted can be %s (no + 1): the batches' losses then add up to less than the group's loss" % sorted(set(bad)) if bad
           else "loss share = floor(weight x loss) + 1 on every path with loss != 0 (%d edge(s) assumed away)" % len(removed), where(rb, bb), key="C01.j | %s | loss" % tk,
           fkey="%s loss" % tk)
    # surplus: the value added to the batch amount on the other branch
    ret = world.ident(world.ret_expr(rb), expand_ws=False)
    sur = []
    for y in find(ret, lambda y: arith_args(y, "Add") is not None and unb in [world.ident(z, expand_ws=False) for z in arith_args(y, "Add")]):
        other = [z for z in arith_args(y, "Add") if world.ident(z, expand_ws=False) != unb]
        if other:
            sur.extend(alts(other[0]))
    bad2 = []
    for a in sur:
        a0 = world.ident(a, expand_ws=False)
        sa = arith_args(a0, "Sub")
        def zval(x, d=0):
            x = world.ident(x, expand_ws=False)
            if (x.op == "call" and x.info.endswith("::zero")) or (x.op == "const" and x.info[0] == "scalar" and x.info[1] == 0):
                return True
            return d < 4 and x.op in ("adt", "array", "tuple") and bool(x.args) and all(zval(y, d + 1) for y in x.args)
        zero = zval(a0)
        if not (zero or (sa is not None and is_one(sa[1]))):
            bad2.append(show(a0, 3))
    if sur:
        rep.ob("C01.j", "%s: a surplus is rounded down (-1 or nothing)" % tk, not bad2,
               "the surplus credited to a batch can be %s" % sorted(set(bad2)) if bad2 else "surplus share = floor(weight x surplus) - 1, or 0", where(rb, bb),
               key="C01.j | %s | surplus" % tk, fkey="%s surplus" % tk)


def E_field(call, name):
    from ..expr import E, simplify
    return simplify(E("field", (E("proj", (call,), "ok"),), (name, "", "")))


def _ok_exit(sem, be, b):
    for (bb, idx, kind, x) in sem.ret_sites(be):
        if kind == "ok" and bb == b:
            return True
    return False
