#!/usr/bin/env python3
"""Self-validation of the checker (DESIGN section 8).

  selftest/run.py [--prop Cxx] [--kind mutants|variants|all] [-j N] [--only ID]

Each edit file (selftest/mutants/*.json, selftest/variants/*.json) holds
  {"id":..., "property": "Cxx", "edits":[{"file":..., "find":..., "replace":...}], "expect_rule": "Cxx.y" | null, "note":...}
A mutant must make ./check <property> report a violation of expect_rule; a variant
(behaviour-preserving refactoring) must leave every listed property silent.
Edits are applied to a scratch copy of the tree under test (default /repo), never to /repo.
"""
import glob
import json
import os
import shutil
import subprocess
import sys
import tempfile
from concurrent.futures import ThreadPoolExecutor

HERE = os.path.dirname(os.path.abspath(__file__))
VERIF = os.path.dirname(HERE)


def scratch_copy(repo):
    d = tempfile.mkdtemp(prefix="krp-mut.")
    for name in os.listdir(repo):
        if name in ("target", ".git", "artifacts"):
            continue
        src = os.path.join(repo, name)
        dst = os.path.join(d, name)
        if os.path.isdir(src):
            shutil.copytree(src, dst)
        else:
            shutil.copy2(src, dst)
    return d


def run_one(spec, repo, props=None):
    d = scratch_copy(repo)
    ev = tempfile.mkdtemp(prefix="krp-ev.")
    try:
        if spec.get("patch"):
            pr = subprocess.run(["patch", "-p1", "-s", "-i", os.path.join(HERE, spec["patch"])], cwd=d, capture_output=True, text=True)
            if pr.returncode != 0:
                return (spec["id"], "inapplicable", "patch does not apply: %s" % (pr.stdout + pr.stderr)[-200:])
        for e in spec.get("edits", []):
            p = os.path.join(d, e["file"])
            s = open(p).read()
            if s.count(e["find"]) < 1:
                return (spec["id"], "inapplicable", "precondition text not found in %s" % e["file"])
            s = s.replace(e["find"], e["replace"], e.get("count", 1))
            open(p, "w").write(s)
        results = []
        plist = props or spec.get("properties") or ([spec["property"]] if "property" in spec else None)
        if plist is None:
            import json as _j
            plist = [c["property_id"] for c in _j.load(open(os.path.join(VERIF, "MANIFEST.json")))["checks"]]
        for prop in plist:
            env = dict(os.environ, KRP_REPO=d, KRP_EVIDENCE_DIR=ev)
            r = subprocess.run([os.path.join(VERIF, "check"), prop, "--tier", "quick"], capture_output=True, text=True, env=env)
            results.append((prop, r.returncode, r.stdout + r.stderr[-2000:]))
        return (spec["id"], "ran", results)
    finally:
        shutil.rmtree(d, ignore_errors=True)
        shutil.rmtree(ev, ignore_errors=True)


def judge(spec, kind, res):
    sid, status, results = res
    if status == "inapplicable":
        return "inapplicable", results
    if kind == "mutants":
        for prop, rc, out in results:
            if rc == 2:
                return "broken", out[-800:]
            exp = spec.get("expect_rule")
            if rc == 1 and (exp is None or any(l.strip().startswith(exp) for l in out.splitlines())):
                return "killed", ""
        return "missed", "\n".join(o[-1500:] for _, _, o in results)
    else:
        al = ["%s rc=%d\n%s" % (prop, rc, "\n".join(l for l in out.splitlines() if not l.startswith("KNOWN-FINDING"))[-1500:]) for prop, rc, out in results if rc != 0]
        if al:
            if spec.get("known_limit"):
                # a behaviour-preserving change the checks are documented not to follow (they fail closed): reported, not a self-test failure
                return "known-limit", spec["known_limit"]
            return "alarm", "\n".join(al)
        return "silent", ""


def relevant_files(prop):
    """source files the property (and the properties whose rules it borrows as premises) is anchored in"""
    sys.path.insert(0, os.path.dirname(HERE))
    from krpsa.rules.premises import PREMISES
    want = {prop} | {src for (src, _r, _w) in PREMISES.get(prop, [])}
    files = set()
    for l in open(os.path.join(os.path.dirname(HERE), "properties.jsonl")):
        d = json.loads(l)
        if d["id"] in want:
            files |= set(d.get("anchors", {}).get("files", []))
    return files


def touches(spec, files):
    """does the variant edit one of `files`? (hand-written variants list their files; patch variants are read from the diff)"""
    ed = {e["file"] for e in spec.get("edits", [])}
    if spec.get("patch"):
        for line in open(os.path.join(HERE, spec["patch"])):
            if line.startswith("+++ b/"):
                ed.add(line[6:].strip())
    return bool(ed & files) or not ed


def run_suite(prop, repo, jobs=8, seed=0):
    """used by `check --tier thorough`: the property's mutants and every variant that edits a file the property (or one of its
    premises) is anchored in; VERIF_ALL_VARIANTS=1 runs every variant regardless"""
    import random
    out = {"mutants": {}, "variants": {}}
    details = []
    files = relevant_files(prop)
    every = os.environ.get("VERIF_ALL_VARIANTS") == "1"
    for k in ("mutants", "variants"):
        specs = []
        for f in sorted(glob.glob(os.path.join(HERE, k, "*.json"))):
            for s in json.load(open(f)):
                if k == "mutants" and s.get("property") != prop:
                    continue
                if k == "variants" and not every and not touches(s, files):
                    out[k].setdefault("not-relevant", []).append(s["id"])
                    continue
                specs.append(s)
        random.Random(seed).shuffle(specs)
        props = [prop]
        with ThreadPoolExecutor(max_workers=jobs) as ex:
            futs = [(s, ex.submit(run_one, s, repo, props if (k == "variants" or not s.get("properties")) else None)) for s in specs]
            for s, fu in futs:
                verdict, detail = judge(s, k, fu.result())
                out[k].setdefault(verdict, []).append(s["id"])
                if verdict in ("missed", "alarm", "broken"):
                    details.append("[%s] %s: %s %s" % (k, s["id"], verdict, str(detail)[-400:]))
    return out, details


def main():
    args = sys.argv[1:]
    prop = None
    kind = "all"
    jobs = 6
    only = None
    repo = os.environ.get("KRP_REPO", "/repo")
    i = 0
    while i < len(args):
        if args[i] == "--prop":
            prop = args[i + 1]; i += 2
        elif args[i] == "--kind":
            kind = args[i + 1]; i += 2
        elif args[i] == "-j":
            jobs = int(args[i + 1]); i += 2
        elif args[i] == "--only":
            only = args[i + 1]; i += 2
        else:
            i += 1
    kinds = ["mutants", "variants"] if kind == "all" else [kind]
    summary = {}
    bad = 0
    for k in kinds:
        specs = []
        for f in sorted(glob.glob(os.path.join(HERE, k, "*.json"))):
            for s in json.load(open(f)):
                if only and not (s["id"] == only or (only.endswith("*") and s["id"].startswith(only[:-1]))):
                    continue
                if prop and k == "mutants" and s["property"] != prop:
                    continue
                specs.append(s)
        props = [prop] if (prop and k == "variants") else None
        with ThreadPoolExecutor(max_workers=jobs) as ex:
            futs = [(s, ex.submit(run_one, s, repo, props)) for s in specs]
            for s, fu in futs:
                verdict, detail = judge(s, k, fu.result())
                summary.setdefault(k, {}).setdefault(verdict, []).append(s["id"])
                if verdict in ("missed", "alarm", "broken"):
                    bad += 1
                    print("[%s] %s: %s\n%s" % (k, s["id"], verdict.upper(), detail))
                else:
                    print("[%s] %s: %s" % (k, s["id"], verdict))
    print(json.dumps({k: {v: len(ids) for v, ids in d.items()} for k, d in summary.items()}))
    sys.exit(2 if bad else 0)


if __name__ == "__main__":
    main()
