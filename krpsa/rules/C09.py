"""C09 - exits do not depend on the reward plumbing: dependency closure (DESIGN 6, C09)."""
from ..xgraph import XGraph
from ..callgraph import explore, call_sites, site_guarded
from ..expr import show, arith_args
from .common import entry, where, msg_enum, variant_env, stored
from .msgs import is_zero_const

# exit messages whose handlers must not contain an unguarded division (hub: every holder-facing message; reward: claim and balance mirroring)
DIV_ENTRIES = [("hub", v) for v in ("Bond", "BondForStSei", "Receive", "WithdrawUnbonded", "CheckSlashing")] + \
              [("reward", v) for v in ("ClaimRewards", "IncreaseBalance", "DecreaseBalance")]
# panicking division primitives: last path segment -> index of the divisor argument
DIV_PRIMS = {"from_ratio": 1, "multiply_ratio": 2, "div": 1, "rem": 1, "div_assign": 1, "rem_assign": 1}
# values the code base keeps non-zero by construction (one line of reason each)
HUBSTATE = "basset_sei_hub::state::STATE"
NONZERO_BY_INVARIANT = {
    stored(HUBSTATE, "bsei_exchange_rate"): "set only by State::update_bsei_exchange_rate: 1 when the pool or the supply is empty, otherwise bonded/supply of a non-empty pool (C06)",
    stored(HUBSTATE, "stsei_exchange_rate"): "set only by State::update_stsei_exchange_rate, same shape (C06)",
}


def _forms(world, e):
    """the integer behind lossless conversions and newtype projections (Uint256::from(x), x.into(), x.u128(), Uint256(x).0): every
    intermediate form, so that a test of any of them counts as a test of the value"""
    out = []
    while True:
        e = world.ident(e, expand_ws=False)
        out.append(e)
        if e.op == "field" and e.info[0] == "0" and not e.info[2]:
            e = e.args[0]
        elif e.op == "call" and e.info.rsplit("::", 1)[-1] in ("from", "into", "u128") and len(e.args) == 1:
            e = e.args[0]
        else:
            return out


def _strip(world, e):
    return _forms(world, e)[-1]


def _const_nonzero(prog, world, e):
    e = _strip(world, e)
    if e.op == "const" and e.info[0] == "scalar":
        return e.info[1] != 0
    if e.op == "const" and e.info[0] == "item":
        b = prog.body(e.info[1])
        if b is not None:
            return _const_nonzero(prog, world, world.ret_expr(b))
    if e.op == "call" and e.info.rsplit("::", 1)[-1] in ("one", "new") and all(_const_nonzero(prog, world, a) for a in e.args):
        return True
    return False


def nonzero_fact(world, f, resolve, cands):
    """does edge fact f establish `d != 0` for a divisor whose (stripped) identity is one of cands? unsigned arithmetic only:
    !d.is_zero(), d != 0, 0 < d, x < d, c <= d with c a non-zero constant"""
    def same(x):
        return any(y in cands for y in _forms(world, x)) or any(y in cands for y in _forms(world, resolve(x)))
    if f[0] == "truth" and f[2] is False and f[1].op == "call" and f[1].info.endswith("::is_zero"):
        return same(f[1].args[0])
    if f[0] == "cmp":
        a, b = f[2], f[3]
        if f[1] == "Lt":
            return same(b)
        if f[1] == "Ne":
            return (same(b) and is_zero_const(_strip(world, a))) or (same(a) and is_zero_const(_strip(world, b))) or \
                   (same(b) and is_zero_const(world.ident(a))) or (same(a) and is_zero_const(world.ident(b)))
    return False


def division_sites(prog, world, sem):
    out = []
    for (c, vn) in DIV_ENTRIES:
        ex = entry(prog, c)
        vs = explore(sem, ex, variant_env(prog, ex, vn))
        for (v, bb, e) in call_sites(sem, vs, lambda k: k.rsplit("::", 1)[-1] in DIV_PRIMS):
            if v.body.crate in ("cosmwasm_bignumber", "signed_integer"):
                continue   # the primitives' own implementation
            out.append((c, vn, v, bb, e))
    return out

EXIT_ENTRIES = (
    [("hub", "execute", v) for v in ("Bond", "BondForStSei", "Receive", "WithdrawUnbonded", "CheckSlashing")] +
    [("reward", "execute", v) for v in ("ClaimRewards", "IncreaseBalance", "DecreaseBalance")]
)

FORBIDDEN_NODES = {("dispatcher", "execute", "SwapToRewardDenom"), ("dispatcher", "execute", "DispatchRewards"), ("reward", "execute", "SwapToRewardDenom")}

# allowed contacts of the exit closure: (source contract, edge kind, target contract, variant)
ALLOWED = {
    ("bsei", "query", "hub", "Config"), ("bsei", "query", "dispatcher", "Config"),
    ("bsei", "execute", "reward", "IncreaseBalance"), ("bsei", "execute", "reward", "DecreaseBalance"),
    ("bsei", "execute", "hub", "CheckSlashing"), ("bsei", "execute", "hub", "Receive"),
    ("stsei", "execute", "hub", "CheckSlashing"), ("stsei", "execute", "hub", "Receive"),
    ("hub", "query", "bsei", "TokenInfo"), ("hub", "query", "stsei", "TokenInfo"),
    ("hub", "execute", "bsei", "Mint"), ("hub", "execute", "bsei", "Burn"),
    ("hub", "execute", "stsei", "Mint"), ("hub", "execute", "stsei", "Burn"),
    ("hub", "query", "registry", "GetValidatorsForDelegation"),
    ("reward", "query", "hub", "Config"),
}


def run(prog, world, sem, rep):
    rep.rule("C09.a", "dependency closure: from the exit entry points (hub bond / unbond / convert / withdraw / slashing check, every message of both "
             "tokens, reward claim and balance mirroring) the transitive closure over execute and smart-query edges contains no swap or oracle "
             "contract, no dispatcher swap / dispatch and no reward swap node; every cross-contract edge of the closure is in the allowed table", 29)
    rep.rule("C09.c", "positive control: the same closure started at hub UpdateGlobalIndex does reach the external swap and oracle contracts", 1)
    rep.rule("C09.d", "no exit handler can panic in a division: every Decimal/Decimal256::from_ratio, multiply_ratio, `/` and `%` reachable from the "
             "holder-facing hub messages and the reward contract's claim / balance mirroring has a divisor that is a non-zero constant, a value the "
             "code base keeps non-zero by construction (table), or a value observed non-zero on every path to the call (lifted to callers)", 6)
    seen_div = set()
    for (c, vn, v, bb, e) in division_sites(prog, world, sem):
        local = v.be.ev_call(bb, v.body.blocks[bb].term)
        prim = (e.info if e.op == "call" else "div").rsplit("::", 1)[-1]
        di = DIV_PRIMS.get(prim, 1)
        d, dl = e.args[di], local.args[di]
        fk = "%s %s" % (v.body.path, show(_strip(world, dl), 3))
        if (c, vn, fk) in seen_div:
            continue
        seen_div.add((c, vn, fk))

        def factors(x):
            x = _strip(world, x)
            if x.op == "bin" and x.info == "Mul":
                return factors(x.args[0]) + factors(x.args[1])
            return [x]
        bad = []
        for (fl, fr) in zip(factors(dl), factors(d)) if len(factors(dl)) == len(factors(d)) else [(x, x) for x in factors(d)]:
            if _const_nonzero(prog, world, fr) or _const_nonzero(prog, world, fl):
                continue
            lab = sem.label(fr)
            if lab in NONZERO_BY_INVARIANT:
                continue
            cands = set(_forms(world, fl)) | set(_forms(world, fr))
            ok, desc = site_guarded(sem, v, bb, lambda f, resolve, cands=cands: nonzero_fact(world, f, resolve, cands))
            if not ok:
                bad.append("divisor %s is not known to be non-zero (%s)" % (show(fr, 4), desc))
        rep.ob("C09.d", "%s::%s division in %s" % (c, vn, v.body.path), not bad, "; ".join(bad) if bad else "divisor %s constant, invariant-backed or guarded" % show(_strip(world, dl), 3),
               where(v.body, bb), key="C09.d | %s::%s | %s" % (c, vn, fk), fkey=fk)
    # ---------------------------------------------------------------- C09.e
    rep.rule("C09.e", "sign convention of the signed difference the withdraw path branches on: SignedInt::from_subtraction(a, b) sets the negative flag only "
             "on an edge on which a < b was observed (checked_sub(a, b) failed, or a strict comparison) - a `negative zero` makes WithdrawUnbonded refuse "
             "('balance can not be lower than prev one') whenever a released group brought no coins", 1)
    fb = None
    for path, b0 in prog.bodies.items():
        if path.endswith("SignedInt::from_subtraction") and b0.is_fn():
            fb = b0
    if fb is None:
        rep.ob("C09.e", "SignedInt::from_subtraction", False, "anchor-lost: signed_integer::SignedInt::from_subtraction not found")
    else:
        fvs = explore(sem, fb)
        root = [v for v in fvs if v.parent is None][0]

        def operand(x, n):
            x = _strip(world, x)
            return x.op == "param" and x.info[1] == n

        def strictly_less(f, resolve):
            if f[0] == "cmp" and f[1] == "Lt":
                return operand(f[2], 1) and operand(f[3], 2)
            c = None
            if f[0] == "variant" and f[2] == "Err":
                c = world.ident(f[1], expand_ws=False)
            if f[0] == "truth" and f[2] is True and f[1].op == "call" and f[1].info.endswith("Result::is_err"):
                c = world.ident(f[1].args[0], expand_ws=False)
            if f[0] == "truth" and f[2] is False and f[1].op == "call" and f[1].info.endswith("Result::is_ok"):
                c = world.ident(f[1].args[0], expand_ws=False)
            if c is not None and c.op == "proj" and c.args:
                c = world.ident(c.args[0], expand_ws=False)
            aa = arith_args(c, "Sub") if c is not None else None
            return aa is not None and operand(aa[0], 1) and operand(aa[1], 2)
        neg_sites = []
        for blk in fb.blocks:
            if blk.cleanup or blk.idx not in root.blocks:
                continue
            for i, st in enumerate(blk.stmts):
                if st.kind == "assign" and st.rv.kind == "agg" and st.rv.j.get("adt", "").endswith("SignedInt"):
                    e0 = root.be.ev_rvalue(blk.idx, i, st.rv)
                    flag = world.ident(e0.args[1], expand_ws=False) if len(e0.args) > 1 else None
                    if not (flag is not None and flag.op == "const" and flag.info[0] == "scalar" and not flag.info[1]):
                        neg_sites.append(blk.idx)
        bad = [b1 for b1 in neg_sites if not site_guarded(sem, root, b1, strictly_less)[0]]
        rep.ob("C09.e", "negative flag only when minuend < subtrahend", bool(neg_sites) and not bad,
               "SignedInt(_, true) can be built without minuend < subtrahend having been observed (equal operands give a negative zero)" if bad or not neg_sites
               else "%d negative construction(s), each behind checked_sub(a, b) failing / a < b" % len(neg_sites), where(fb), key="C09.e | from_subtraction")
    g = XGraph(prog, world, sem)
    starts = list(EXIT_ENTRIES)
    for c in ("bsei", "stsei"):
        for v in g.variants(c, "execute"):
            starts.append((c, "execute", v))
    for s in starts:
        c, kind, var = s
        if var not in g.variants(c, kind):
            rep.ob("C09.a", "%s::%s" % (c, var), False, "anchor-lost: exit entry point %s::%s does not exist" % (c, var))
            continue
        seen, edges = g.closure([s])
        bad = []
        for n in seen:
            if n in FORBIDDEN_NODES:
                bad.append("reaches %s::%s" % (n[0], n[2]))
            if n[0] in ("EXT:swap", "EXT:oracle"):
                bad.append("reaches the external %s contract (%s)" % (n[0][4:], n[2]))
        for (src, (ek, tgt, pv, pt, wh)) in edges:
            if ek == "unresolved-variant":
                bad.append("message %s::%s has no receiving variant" % (tgt, pv))
                continue
            k = (src[0], ek, tgt, pv)
            if k not in ALLOWED:
                bad.append("new dependency %s --%s--> %s::%s at %s" % (src[0], ek, tgt, pv, wh))
        rep.ob("C09.a", "%s::%s closure" % (c, var), not bad, "; ".join(sorted(set(bad))) if bad else
               "closure of %d node(s), %d edge(s), all allowed" % (len(seen), len(edges)), where(entry(prog, c, kind)), key="C09.a | %s::%s" % (c, var))
    seen, edges = g.closure([("hub", "execute", "UpdateGlobalIndex")])
    ext = {n[0] for n in seen if n[0].startswith("EXT:")}
    rep.ob("C09.c", "control: reward distribution reaches swap and oracle", {"EXT:swap", "EXT:oracle"} <= ext, "external contacts of UpdateGlobalIndex: %s" % sorted(ext), where(entry(prog, "hub")))
    rep.extra["edge_table"] = sorted({"%s --%s--> %s::%s" % (src[0], ek, tgt, pv) for s in starts for (src, (ek, tgt, pv, pt, wh)) in g.closure([s])[1]})
