"""C06 - slashing recognised exactly, pro rata: structural clauses (DESIGN 6, C06)."""
from ..callgraph import explore, storage_effects, call_sites
from ..expr import show, find, arith_args
from .common import entry, variant_env, stored, where, arm_handler
from .hub_common import resync_fns, recompute_fns, Roles, STATE, PARAMS, BATCH


def run(prog, world, sem, rep):
    rep.rule("C06.a", "downward only: in the function that recomputes the State from the delegations, both pool totals are assigned only "
             "through the true-edge of the strict comparison booked_sum > delegated_sum", 2)
    rep.rule("C06.b", "exact sum by complement: stSei pool := checked_sub(delegated_sum, new bSei pool); bSei pool := delegated_sum x "
             "from_ratio(old bSei pool, booked_sum); booked_sum = old bSei pool + old stSei pool", 3)
    rep.rule("C06.d", "delegated_sum accumulates only delegations whose denom equals Parameters.underlying_coin_denom, of the hub's own delegations", 2)
    rep.rule("C06.f", "the re-synchronised State is persisted as computed (STATE.save of the recomputed value) and CheckSlashing runs it", 2)

    rep.rule("C06.g", "recognition is unconditional: every success exit of the recompute function lies behind the comparison of the booked total with "
             "the delegated total (no shortcut returns the stored State unchecked)", 1)

    rc = recompute_fns(prog, sem)
    rs = resync_fns(prog, sem)
    if len(rc) != 1 or len(rs) != 1:
        rep.ob("C06.a", "recompute / resync functions", False, "anchor-lost: recompute fns %s, resync fns %s" % (sorted(rc), sorted(rs)))
        return
    body = prog.body(list(rc)[0])
    be = world.be(body)
    roles = Roles(prog, sem)
    # the local holding the State being rebuilt: the one with field-level definitions of the pool totals
    defs = [d for l, ds in be.defs_by_local.items() for d in ds if d.path and d.path[0][0] == "f" and d.path[0][1] in ("total_bond_bsei_amount", "total_bond_stsei_amount")]
    by_field = {}
    for d in defs:
        by_field.setdefault(d.path[0][1], []).append(d)
    if set(by_field) != {"total_bond_bsei_amount", "total_bond_stsei_amount"}:
        rep.ob("C06.a", "pool assignments", False, "anchor-lost: pool assignments found for %s" % sorted(by_field), where(body))
        return

    def lab(x):
        return sem.label(x)

    def is_booked_sum(x):
        x = world.ident(x, expand_ws=False)
        if x.op == "bin" and x.info == "Add":
            return {lab(a) for a in x.args} == {stored(STATE, "total_bond_bsei_amount"), stored(STATE, "total_bond_stsei_amount")}
        return False
    # the delegated sum: accumulation over query_all_delegations(self)
    pass_edges = set()
    delegated = None
    for blk in body.blocks:
        if blk.term.kind == "switch" and blk.idx in be.cfg.live:
            for succ, fl in sem.edge_facts(be, blk.idx).items():
                for f in fl:
                    if f[0] == "cmp" and f[1] == "Lt" and is_booked_sum(f[3]):
                        pass_edges.add((blk.idx, succ))
                        delegated = world.ident(f[2], expand_ws=False)
    reach = be.cfg.reach([0], removed=pass_edges)
    for fld, ds in sorted(by_field.items()):
        bad = [d for d in ds if d.bb in reach]
        rep.ob("C06.a", "%s lowered only when booked > delegated" % fld, bool(pass_edges) and not bad,
               "assignment of %s reachable without observing booked_sum > delegated_sum (strict)" % fld if bad or not pass_edges
               else "assignment behind delegated_sum < booked_sum", where(body, ds[0].bb), key="C06.a | %s" % fld)
    # ---- C06.g no success exit around the comparison
    # (two shortcuts are part of the design and carry their own observation: nothing is delegated at all, or nothing is booked at all)
    cmp_blocks = {u for (u, _) in pass_edges}
    allowed = set()
    for blk in body.blocks:
        if blk.term.kind == "switch" and blk.idx in be.cfg.live:
            for succ, fl in sem.edge_facts(be, blk.idx).items():
                for f in fl:
                    if f[0] == "truth" and f[2] is True and f[1].op == "call":
                        nm, a0 = f[1].info, world.ident(f[1].args[0], expand_ws=False) if f[1].args else None
                        if nm.endswith("::is_empty") and a0 is not None and find(world.norm(a0, 0, False), lambda y: y.op == "call" and y.info.endswith("query_all_delegations")):
                            allowed.add((blk.idx, succ))
                        if nm.endswith("::is_zero") and a0 is not None and is_booked_sum(a0):
                            allowed.add((blk.idx, succ))
    okret = [b for (b, idx, k, x) in sem.ret_sites(be) if k in ("ok", "call", "libcall", "unknown") and b in be.cfg.live]
    r0 = be.cfg.reach([0], removed=allowed, stop=cmp_blocks)
    short = [b for b in okret if b in r0 and b not in cmp_blocks]
    rep.ob("C06.g", "no success exit of the recompute function bypasses the booked-vs-delegated comparison", bool(cmp_blocks) and bool(okret) and not short,
           "the recompute function can return successfully (block %s) without comparing the booked total with the delegations, other than for an empty delegation "
           "list or an empty book: a slash in that state goes unrecognised" % (short,) if short else "every success exit passes the comparison (or has nothing delegated / booked)", where(body))
    # ---- C06.b shapes
    dn = world.norm(delegated, 0, False) if delegated is not None else None
    bd = by_field["total_bond_bsei_amount"][0]
    sd = by_field["total_bond_stsei_amount"][0]
    bv = world.norm(be.def_value(bd), 0, False)
    sv = world.norm(be.def_value(sd), 0, False)
    okb = False
    det = show(bv, 5)
    if bv.op == "bin" and bv.info == "Mul":
        for x, y in ((bv.args[0], bv.args[1]), (bv.args[1], bv.args[0])):
            if x == dn and y.op == "call" and y.info.endswith("Decimal::from_ratio"):
                okb = lab(y.args[0]) == stored(STATE, "total_bond_bsei_amount") and is_booked_sum(y.args[1])
    rep.ob("C06.b", "bSei pool := delegated x old bSei / booked", okb, det, where(body, bd.bb))
    oks = arith_args(sv, "Sub") is not None and arith_args(sv, "Sub")[0] == dn and arith_args(sv, "Sub")[1] == bv
    rep.ob("C06.b", "stSei pool := delegated - new bSei pool", oks, show(sv, 5), where(body, sd.bb))
    rep.ob("C06.b", "comparison uses booked = bSei pool + stSei pool as loaded", bool(pass_edges), "%d guarding edge(s)" % len(pass_edges), where(body))
    # ---- C06.d accumulation
    okd = False
    det = "anchor-lost: delegated sum is not an accumulation"
    src_ok = False
    if delegated is not None:
        adds = find(world.ident(delegated, expand_ws=False), lambda y: y.op == "bin" and y.info == "Add" and y.site and y.site[0] == body.path)
        for a in adds:
            amt = [z for z in a.args if z.op != "rec" and not (z.op == "call" and z.info.endswith("::zero"))]
            pe = set()
            for blk in body.blocks:
                if blk.term.kind == "switch" and blk.idx in be.cfg.live:
                    for succ, fl in sem.edge_facts(be, blk.idx).items():
                        for f in fl:
                            if f[0] == "cmp" and f[1] == "Eq":
                                ls = [lab(f[2]), lab(f[3])]
                                xs = [world.ident(f[2], expand_ws=False), world.ident(f[3], expand_ws=False)]
                                if stored(PARAMS, "underlying_coin_denom") in ls and any(x.op == "field" and x.info[0] == "denom" for x in xs):
                                    pe.add((blk.idx, succ))
            r = be.cfg.reach([0], removed=pe)
            okd = bool(pe) and a.site[1] not in r
            det = "accumulation behind delegation.amount.denom == Parameters.underlying_coin_denom" if okd else "a delegation of any denom is added to the delegated sum"
            srcs = find(world.norm(a, 0, False), lambda y: y.op == "call" and y.info.endswith("query_all_delegations"))
            src_ok = any(sem.label(s.args[1]) == ("self",) for s in srcs)
    rep.ob("C06.d", "delegated sum filters by the staking denom", okd, det, where(body))
    rep.ob("C06.d", "delegated sum is over the hub's own delegations", src_ok, "query_all_delegations(self): %s" % src_ok, where(body))
    # ---- C06.f persistence
    rbody = prog.body(list(rs)[0])
    rbe = world.be(rbody)
    okp = False
    det = "no STATE save in %s" % rbody.path
    for (bb, kind, cell, key, val, e) in sem.storage_sites(rbe):
        if cell == STATE and kind == "write":
            v = world.ident(val, expand_ws=False)
            base = v.args[0] if v.op == "proj" else v
            okp = base.op == "call" and base.info in rc
            det = "saved value %s" % show(v, 3)
    rep.ob("C06.f", "resync saves exactly the recomputed State", okp, det, where(rbody))
    ex = entry(prog, "hub")
    vs = explore(sem, ex, variant_env(prog, ex, "CheckSlashing"))
    called = any(v.body.path in rs for v in vs)
    rep.ob("C06.f", "CheckSlashing runs the resync", called, "resync reachable from CheckSlashing: %s" % called, where(ex))
