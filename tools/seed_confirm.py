#!/usr/bin/env python3
"""tools/seed_confirm.py <worktree> <change-dir-name> <property> <seed-id>

Confirms a sub-agent's seeded change in its scratch worktree (suite passes with the change,
demo fails with it, demo passes without it), runs every check of /verif against the changed
tree, and files the change under /verif/seeded/<seed-id>/ with meta.json.
"""
import json
import os
import re
import shutil
import subprocess
import sys

VERIF = os.path.dirname(os.path.dirname(os.path.abspath(__file__)))


def sh(cmd, cwd, env=None, timeout=3600):
    e = dict(os.environ)
    if env:
        e.update(env)
    r = subprocess.run(cmd, shell=True, cwd=cwd, env=e, capture_output=True, text=True, timeout=timeout)
    return r.returncode, r.stdout + r.stderr


def test_counts(out):
    p = sum(int(m) for m in re.findall(r"test result: \w+\. (\d+) passed", out))
    f = sum(int(m) for m in re.findall(r"test result: \w+\. \d+ passed; (\d+) failed", out))
    return p, f


def main():
    wt, change, prop, sid = sys.argv[1:5]
    cdir = os.path.join(wt, "_seed", change)
    patch = os.path.join(cdir, "patch.diff")
    demo = os.path.join(cdir, "demo.diff")
    env = {"CARGO_TARGET_DIR": os.path.join(wt, "target"), "CARGO_NET_OFFLINE": "true"}
    res = {"seed_id": sid, "property": prop, "source": "%s/_seed/%s" % (wt, change)}
    sh("git checkout -- . && git clean -fdq -e _seed -e PROPERTY.txt -e target", wt)
    # 1. suite with the change
    rc, out = sh("git apply %s" % patch, wt)
    if rc != 0:
        print("patch does not apply:", out)
        sys.exit(2)
    rc, out = sh("cargo test --workspace --offline --no-fail-fast 2>&1", wt, env)
    p, f = test_counts(out)
    res["suite_with_change"] = {"passed": p, "failed": f}
    # 2. checks against the changed tree
    checks = [c["property_id"] for c in json.load(open(os.path.join(VERIF, "MANIFEST.json")))["checks"]]
    evd = "/tmp/krp-ev-seed-%s" % sid
    det = {}
    for c in checks:
        rc2, o2 = sh("%s/check %s" % (VERIF, c), VERIF, {"KRP_REPO": wt, "KRP_EVIDENCE_DIR": evd})
        lines = [l.strip() for l in o2.splitlines() if re.match(r"\s+C\d+\.\w+:", l)]
        if rc2 != 0:
            det[c] = {"rc": rc2, "rules": sorted({l.split(":")[0] for l in lines}), "first": lines[:2]}
    shutil.rmtree(evd, ignore_errors=True)
    res["detected_by"] = det
    # 3. demo with the change
    rc, out = sh("git apply %s" % demo, wt)
    if rc != 0:
        res["demo_with_change"] = "demo.diff does not apply on the changed tree"
    else:
        rc, out = sh("cargo test --workspace --offline --no-fail-fast 2>&1", wt, env)
        p, f = test_counts(out)
        failed = re.findall(r"^test (\S+) \.\.\. FAILED", out, re.M)
        res["demo_with_change"] = {"passed": p, "failed": f, "failed_tests": failed[:6]}
    # 4. demo without the change
    sh("git checkout -- .", wt)
    rc, out = sh("git apply %s" % demo, wt)
    rc, out = sh("cargo test --workspace --offline --no-fail-fast 2>&1", wt, env)
    p, f = test_counts(out)
    res["demo_without_change"] = {"passed": p, "failed": f}
    sh("git checkout -- .", wt)
    ok = res["suite_with_change"]["failed"] == 0 and res["suite_with_change"]["passed"] >= 142 and \
        isinstance(res["demo_with_change"], dict) and res["demo_with_change"]["failed"] > 0 and res["demo_without_change"]["failed"] == 0
    res["confirmed"] = ok
    out_dir = os.path.join(VERIF, "seeded", sid)
    if ok:
        os.makedirs(out_dir, exist_ok=True)
        shutil.copy(patch, os.path.join(out_dir, "patch.diff"))
        shutil.copy(demo, os.path.join(out_dir, "demo.diff"))
        if os.path.exists(os.path.join(cdir, "README.md")):
            shutil.copy(os.path.join(cdir, "README.md"), os.path.join(out_dir, "README.md"))
        meta = {
            "seed_id": sid, "breaks_property": prop,
            "origin": "independent sub-agent given only the property text and a scratch worktree",
            "what_i_ran": [
                "git apply patch.diff; cargo test --workspace --offline --no-fail-fast  -> %(passed)d passed, %(failed)d failed" % res["suite_with_change"],
                "git apply demo.diff (on the changed tree); cargo test --workspace --offline -> %d failed (%s)" % (
                    res["demo_with_change"]["failed"], ", ".join(res["demo_with_change"]["failed_tests"])),
                "git checkout -- .; git apply demo.diff; cargo test --workspace --offline -> %(passed)d passed, %(failed)d failed" % res["demo_without_change"],
                "KRP_REPO=<changed tree> ./check <every claimed property>",
            ],
            "detected_by": det,
            "detected": bool(det),
        }
        json.dump(meta, open(os.path.join(out_dir, "meta.json"), "w"), indent=1)
    print(json.dumps(res, indent=1))


if __name__ == "__main__":
    main()
