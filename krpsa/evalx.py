"""A4 core: reaching definitions on (local, field path) and on-demand construction of
symbolic value expressions (expr.E) for any place at any program point; interprocedural
expansion of workspace callees (return values and &mut out-parameters) by substitution.
"""
import re

from .cfg import CFG
from .expr import (E, UNKNOWN, DEFAULT, mk_phi, simplify, subst, callee_key, walk, find,
                   IDENT_ARG, IDENT_TRAIT_METHODS, ARITH_TRAITS, ASSIGN_TRAITS, CMP_METHODS, CHECKED_ARITH)
from .ir import strip_generics

OPAQUE_MUT_TYPES = ("cosmwasm_std::DepsMut", "dyn [", "cosmwasm_std::QuerierWrapper", "std::fmt::Formatter",
                    "cosmwasm_storage::", "cosmwasm_std::Deps<")


def is_prefix(a, b):
    # (index elements compare equal whatever the index local is: ("[]", 3) ~ ("[]", 7) ~ ("[]",))
    if len(a) > len(b):
        return False
    for x, y in zip(a, b):
        if x != y and not (x[0] == "[]" and y[0] == "[]"):
            return False
    return True


class Def:
    __slots__ = ("id", "bb", "idx", "local", "path", "kind", "payload")

    def __init__(self, id, bb, idx, local, path, kind, payload):
        self.id = id
        self.bb = bb
        self.idx = idx
        self.local = local
        self.path = path
        self.kind = kind
        self.payload = payload

    def __repr__(self):
        return "Def#%d(bb%d:%d _%d%s %s)" % (self.id, self.bb, self.idx, self.local, "." + ".".join(p[1] if p[0] == "f" else "[]" for p in self.path) if self.path else "", self.kind)


def place_path(proj):
    out = []
    for p in proj:
        if p[0] == "f":
            out.append(("f", p[2], p[4]))
        elif p[0] == "i":
            out.append(("[]", p[1]))   # the index local is kept so that a read `xs[i]` can say which entry it reads
        elif p[0] in ("ci", "sub"):
            out.append(("[]",))
    return tuple(out)


class BodyEval:
    def __init__(self, world, body, removed=frozenset()):
        self.world = world
        self.body = body
        self.cfg = CFG(body, removed)
        self.defs = []
        self.defs_by_local = {}
        self.block_defs = {}  # bb -> list of defs in order
        self._unique_def = {}
        self._collect_simple_defs()
        self._collect_defs()
        self._reach_in = {}  # local -> {bb: frozenset(def ids)}
        self._memo = {}
        self._inprog = set()
        self._def_val = {}
        self.is_closure = body.kind == "closure"

    # ------------------------------------------------------------------ alias helpers
    def _collect_simple_defs(self):
        """count syntactic defs per local to find single-assignment temporaries"""
        cnt = {}
        first = {}
        for b in self.body.blocks:
            if b.cleanup:
                continue
            for i, s in enumerate(b.stmts):
                if s.kind == "assign" and s.place.is_local():
                    cnt[s.place.local] = cnt.get(s.place.local, 0) + 1
                    first[s.place.local] = ("stmt", b.idx, i, s)
                elif s.kind == "assign":
                    cnt[s.place.local] = cnt.get(s.place.local, 0) + 100
            t = b.term
            if t.kind == "call":
                if t.dest.is_local():
                    cnt[t.dest.local] = cnt.get(t.dest.local, 0) + 1
                    first[t.dest.local] = ("call", b.idx, len(b.stmts), t)
                else:
                    cnt[t.dest.local] = cnt.get(t.dest.local, 0) + 100
        for l, c in cnt.items():
            if c == 1 and l > self.body.arg_count:
                self._unique_def[l] = first[l]

    def ref_target(self, local, depth=0):
        """if `local` is a single-assignment temporary holding a reference to a place,
        return the canonical (local, path) it points to; else None"""
        if depth > 8:
            return None
        ud = self._unique_def.get(local)
        if ud is None:
            if 1 <= local <= self.body.arg_count:
                return (local, ())
            return None
        kind, bb, idx, x = ud
        if kind == "stmt":
            rv = x.rv
            if rv.kind in ("ref", "rawptr"):
                return self.canon(rv.place, depth + 1)
            if rv.kind in ("use", "cast") and rv.ops[0].place is not None:
                p = rv.ops[0].place
                ty = self.body.local_tys[p.local]
                if p.is_local() and (ty.startswith("&") or ty.startswith("*")):
                    return self.ref_target(p.local, depth + 1)
                if rv.kind == "cast" and not p.is_local():
                    # e.g. `_197 = copy _122.0.pointer as *const MaybeUninit<..>`: pointer into a box
                    return None
            return None
        else:
            t = x
            key = callee_key(t.callee)
            if key in ("std::ops::DerefMut::deref_mut", "std::ops::Deref::deref", "std::ops::IndexMut::index_mut",
                       "std::convert::AsMut::as_mut") and t.args and t.args[0].place is not None:
                base = self.operand_ref_target(t.args[0], depth + 1)
                if base is None:
                    return None
                if "Index" in key:
                    return (base[0], base[1] + (("[]",),))
                return base
            return None

    def operand_ref_target(self, op, depth=0):
        if op.place is None:
            return None
        if op.place.is_local():
            return self.ref_target(op.place.local, depth)
        return self.canon(op.place, depth)

    def canon(self, place, depth=0):
        """canonical (local, path): derefs dropped; a leading deref of a reference
        temporary is replaced by the place the reference was taken of"""
        local = place.local
        proj = place.proj
        if proj and proj[0][0] == "*":
            ty = self.body.local_tys[local]
            if local > self.body.arg_count or not ty.startswith("&"):
                tgt = self.ref_target(local, depth + 1)
                if tgt is not None and tgt[0] != local:
                    return (tgt[0], tgt[1] + place_path(proj[1:]))
        return (local, place_path(proj))

    # ------------------------------------------------------------------ definitions
    def _add_def(self, bb, idx, local, path, kind, payload):
        d = Def(len(self.defs), bb, idx, local, path, kind, payload)
        self.defs.append(d)
        self.defs_by_local.setdefault(local, []).append(d)
        self.block_defs.setdefault(bb, []).append(d)
        return d

    def _collect_defs(self):
        body = self.body
        for l in range(1, body.arg_count + 1):
            self._add_def(-1, -1, l, (), "param", l)
        for b in body.blocks:
            if b.cleanup or b.idx not in self.cfg.live:
                continue
            for i, s in enumerate(b.stmts):
                if s.kind != "assign":
                    continue
                local, path = self.canon(s.place)
                self._add_def(b.idx, i, local, path, "assign", s)
                if s.rv.kind == "agg" and "closure" in s.rv.j:
                    for o in s.rv.ops:
                        if o.place is not None and o.place.is_local() and self.body.local_tys[o.place.local].startswith("&'{erased} mut"):
                            tgt = self.ref_target(o.place.local)
                            if tgt is not None:
                                self._add_def(b.idx, i, tgt[0], tgt[1], "clobber", s)
            t = b.term
            if t.kind == "call":
                n = len(b.stmts)
                for k, a in enumerate(t.args):
                    if a.place is None or not a.place.is_local():
                        continue
                    ty = body.local_tys[a.place.local]
                    if not ty.startswith("&'{erased} mut"):
                        continue
                    if any(x in ty for x in OPAQUE_MUT_TYPES):
                        continue
                    tgt = self.ref_target(a.place.local)
                    if tgt is None:
                        continue
                    self._add_def(b.idx, n, tgt[0], tgt[1], "mod", (t, k))
                local, path = self.canon(t.dest)
                self._add_def(b.idx, n, local, path, "call", t)

    def _reach_for(self, local, u):
        """reaching definitions of `local` relevant to the queried path u: a definition whose
        path is a prefix of u covers the query and kills everything before it; a deeper
        (partial) definition kills only what it overwrites"""
        k = (local, u)
        if k in self._reach_in:
            return self._reach_in[k]
        defs = [d for d in self.defs_by_local.get(local, []) if is_prefix(d.path, u) or is_prefix(u, d.path)]
        cfg = self.cfg
        by_block = {}
        for d in defs:
            if d.bb >= 0:
                by_block.setdefault(d.bb, []).append(d)

        def transfer(bb, inset):
            ds = by_block.get(bb)
            if not ds:
                return inset
            cur = set(inset)
            for d in ds:
                if is_prefix(d.path, u):
                    cur = {d.id}
                else:
                    cur = {x for x in cur if not is_prefix(d.path, self.defs[x].path)}
                    cur.add(d.id)
            return frozenset(cur)

        entry = frozenset(d.id for d in defs if d.bb < 0)
        IN = {b: frozenset() for b in cfg.live}
        OUT = {b: frozenset() for b in cfg.live}
        IN[0] = entry
        order = cfg.rpo()
        changed = True
        while changed:
            changed = False
            for b in order:
                if b != 0:
                    s = set()
                    for p in cfg.pred[b]:
                        if p in OUT:
                            s |= OUT[p]
                    IN[b] = frozenset(s)
                o = transfer(b, IN[b])
                if o != OUT[b]:
                    OUT[b] = o
                    changed = True
        self._reach_in[k] = IN
        return IN

    def reaching(self, bb, idx, local, u=()):
        """def ids of `local` relevant to path u reaching the point just before (bb, idx)"""
        IN = self._reach_for(local, u)
        cur = set(IN.get(bb, ()))
        for d in self.block_defs.get(bb, ()):
            if d.local != local or d.idx >= idx:
                continue
            if is_prefix(d.path, u):
                cur = {d.id}
            elif is_prefix(u, d.path):
                cur = {x for x in cur if not is_prefix(d.path, self.defs[x].path)}
                cur.add(d.id)
        return cur

    # ------------------------------------------------------------------ types
    def struct_fields(self, ty):
        t = ty
        while t.startswith("&"):
            t = re.sub(r"^&'\{erased\} (mut )?", "", t)
        base = strip_generics(t.split("<")[0])
        a = self.world.prog.adts.get(base)
        if a and a["kind"] == "struct":
            return base, [(f["name"], f["ty"]) for f in a["variants"][0]["fields"]]
        return None, None

    def type_at(self, local, path):
        ty = self.body.local_tys[local]
        for p in path:
            if p[0] != "f":
                return None
            _, fields = self.struct_fields(ty)
            if fields is None:
                return None
            d = dict(fields)
            if p[1] not in d:
                return None
            ty = d[p[1]]
        return ty

    # ------------------------------------------------------------------ evaluation
    def ev_place(self, bb, idx, place):
        local, path = self.canon(place)
        return self.ev_lp(bb, idx, local, path)

    def ev_operand(self, bb, idx, op):
        if op.kind in ("copy", "move"):
            return self.ev_place(bb, idx, op.place)
        if op.kind != "const":
            return UNKNOWN
        j = op.j
        if "fn" in j:
            return E("const", (), ("fn", strip_generics(j["fn"]["path"])))
        if "scalar" in j:
            return E("const", (), ("scalar", int(j["scalar"]), j["ty"]))
        if "str" in j:
            return E("const", (), ("str", j["str"]))
        if "item" in j:
            return E("const", (), ("item", j["item"]))
        if "static" in j:
            return E("const", (), ("static", j["static"]))
        if "promoted" in j:
            owner = self.body.promoted_of or self.body
            pb = owner.promoted[j["promoted"]]
            return self.world.ret_expr(pb)
        if "zst" in j:
            return E("const", (), ("zst", j["ty"]))
        return E("const", (), ("opaque", j.get("ty")))

    def ev_lp(self, bb, idx, local, path, depth=0):
        rd = self.reaching(bb, idx, local, path)
        rel = [self.defs[i] for i in rd]
        key = (frozenset(d.id for d in rel), local, path)
        if key in self._memo:
            return self._memo[key]
        if key in self._inprog:
            return E("rec", (), (self.body.path, local, path))
        self._inprog.add(key)
        try:
            deeper = [d for d in rel if len(d.path) > len(path)]
            if deeper and depth < 4:
                ty = self.type_at(local, path)
                base, fields = self.struct_fields(ty) if ty else (None, None)
                if fields is not None:
                    vals = [self.ev_lp(bb, idx, local, path + (("f", fn, ""),), depth + 1) for fn, _ in fields]
                    r = E("adt", vals, (base, "", tuple(fn for fn, _ in fields)))
                else:
                    covering = [d for d in rel if len(d.path) <= len(path)]
                    basev = mk_phi([self.project(self.def_value(d), path[len(d.path):], bb, idx) for d in covering]) if covering else UNKNOWN
                    r = E("upd", [basev] + [self.def_value(d) for d in sorted(deeper, key=lambda d: d.id)])
            elif not rel:
                r = E("undef", (), (self.body.path, local))
            else:
                r = mk_phi([self.project(self.def_value(d), path[len(d.path):], bb, idx) for d in sorted(rel, key=lambda d: d.id)])
        finally:
            self._inprog.discard(key)
        self._memo[key] = r
        return r

    def project(self, e, rest, bb=None, idx=None):
        for p in rest:
            if p[0] == "[]" and len(p) > 1 and bb is not None:
                # slice / array indexing by a local: the same shape as Vec indexing (Index::index(base, i))
                e = E("call", (e, self.ev_lp(bb, idx, p[1], ())), "std::ops::Index::index", (self.body.path, bb))
                continue
            if p[0] == "f":
                if e.op == "param" and self.is_closure and e.info[1] == 1 and p[1].isdigit():
                    n = int(p[1])
                    e = E("upvar", (), (self.body.path, n, self.body.upvar_names.get(n)))
                else:
                    e = simplify(E("field", (e,), (p[1], "", p[2])))
            else:
                e = E("elem", (e,))
        return e

    def def_value(self, d):
        if d.id in self._def_val:
            return self._def_val[d.id]
        k = ("def", d.id)
        if k in self._inprog:
            return E("rec", (), (self.body.path, d.id))
        self._inprog.add(k)
        try:
            v = self._def_value(d)
        finally:
            self._inprog.discard(k)
        self._def_val[d.id] = v
        return v

    def _def_value(self, d):
        body = self.body
        if d.kind == "param":
            l = d.payload
            return E("param", (), (body.path, l, body.name_of(l), body.local_tys[l]))
        if d.kind == "assign":
            return self.ev_rvalue(d.bb, d.idx, d.payload.rv)
        if d.kind == "call":
            return self.ev_call(d.bb, d.payload)
        if d.kind == "mod":
            t, k = d.payload
            return self.ev_mod(d, t, k)
        if d.kind == "clobber":
            return E("clobbered", (), (body.path, d.bb))
        return UNKNOWN

    def ev_rvalue(self, bb, idx, rv):
        k = rv.kind
        if k in ("use", "cast"):
            v = self.ev_operand(bb, idx, rv.ops[0])
            if k == "use" and v.op == "const" and v.info[0] == "scalar" and v.info[2] == "bool" and v.site is None:
                # `flag = true` / `flag = false`: the assignment site is kept (not part of equality) so that a later test of the flag
                # can be traced back to the branch that set it
                return E("const", (), v.info, (self.body.path, bb))
            return v
        if k in ("ref", "rawptr"):
            return self.ev_place(bb, idx, rv.place)
        if k == "bin":
            return E("bin", [self.ev_operand(bb, idx, o) for o in rv.ops], rv.j["op"], (self.body.path, bb))
        if k == "un":
            return E("un", [self.ev_operand(bb, idx, rv.ops[0])], rv.j["op"])
        if k == "discr":
            return E("discr", [self.ev_place(bb, idx, rv.place)], rv.j.get("of"))
        if k == "agg":
            j = rv.j
            ops = [self.ev_operand(bb, idx, o) for o in rv.ops]
            if "adt" in j:
                return E("adt", ops, (j["adt"], j["variant"] if j.get("is_enum") else "", tuple(j["fields"])), (self.body.path, bb))
            if "closure" in j:
                return E("closure", ops, self.world.prog.alias.get(j["closure"], j["closure"]), (self.body.path, bb))
            if j.get("tuple"):
                return E("tuple", ops)
            if j.get("array"):
                return E("array", ops)
            return E("agg", ops)
        if k == "repeat":
            return E("repeat", [self.ev_operand(bb, idx, rv.ops[0])])
        return UNKNOWN

    def call_args(self, bb, t):
        n = len(self.body.blocks[bb].stmts)
        return [self.ev_operand(bb, n, a) for a in t.args]

    def ev_call(self, bb, t):
        c = t.callee
        key = callee_key(c)
        args = self.call_args(bb, t)
        site = (self.body.path, bb)
        if c.trait:
            tr = strip_generics(c.trait)
            if tr in ARITH_TRAITS and len(args) == 2:
                return E("bin", args, ARITH_TRAITS[tr], site)
            if (tr, c.name) in CMP_METHODS and len(args) == 2:
                return E("bin", args, CMP_METHODS[(tr, c.name)], site)
        if key == "std::boxed::box_assume_init_into_vec_unsafe":
            blk = self.body.blocks[bb]
            for i, s in enumerate(blk.stmts):
                if s.kind == "assign" and s.rv.kind == "agg" and s.rv.j.get("array") and s.place.proj and s.place.proj[0][0] == "*":
                    return E("call", [self.ev_rvalue(bb, i, s.rv)], "vec!", site)
            return E("call", [UNKNOWN], "vec!", site)
        path = strip_generics(c.path) if not c.trait or c.local else key
        if c.trait and (strip_generics(c.trait), c.name) in IDENT_TRAIT_METHODS:
            path = "%s::%s" % (strip_generics(c.trait), c.name)
        elif c.local or c.krate in self.world.ws_crates:
            path = strip_generics(c.dpath)
        e = E("call", args, path, site)
        return e

    def ev_mod(self, d, t, k):
        c = t.callee
        args = self.call_args(d.bb, t)
        site = (self.body.path, d.bb)
        n = len(self.body.blocks[d.bb].stmts)
        old = self.ev_lp(d.bb, n, d.local, d.path)
        if c.trait:
            tr = strip_generics(c.trait)
            if tr in ASSIGN_TRAITS and k == 0 and len(args) == 2:
                return E("bin", [old, args[1]], ASSIGN_TRAITS[tr], site)
        path = strip_generics(c.dpath if (c.local or c.krate in self.world.ws_crates) else c.path)
        return E("out", [old] + args, (path, k), site)


class World:
    """program-wide cache of BodyEvals, return-value summaries and call expansion"""

    def __init__(self, prog):
        self.prog = prog
        self.ws_crates = set(prog.crates.keys())
        self._be = {}
        self._ret = {}
        self._out = {}

    def be(self, body):
        k = id(body)
        if k not in self._be:
            self._be[k] = BodyEval(self, body)
        return self._be[k]

    def be_spec(self, body, removed):
        """BodyEval on the CFG with the given (infeasible) edges removed"""
        if not removed:
            return self.be(body)
        k = (id(body), frozenset(removed))
        d = self.__dict__.setdefault("_be_spec", {})
        if k not in d:
            d[k] = BodyEval(self, body, frozenset(removed))
        return d[k]

    def ret_expr(self, body, removed=frozenset()):
        """value of _0 at the return points (phi); `removed`: edges infeasible for this use (constant arguments)"""
        k = id(body) if not removed else (id(body), frozenset(removed))
        if k in self._ret:
            return self._ret[k]
        self._ret[k] = E("rec", (), ("ret", body.path))
        be = self.be_spec(body, removed)
        vals = []
        for r in be.cfg.exits():
            vals.append(be.ev_lp(r, len(body.blocks[r].stmts), 0, ()))
        v = mk_phi(vals) if vals else E("diverges")
        self._ret[k] = v
        return v

    def out_expr(self, body, k, removed=frozenset()):
        """value of the pointee of &mut parameter k (0-based arg index) where the function
        returns successfully (points at which _0 is assigned something other than an Err)"""
        key = (id(body), k) if not removed else (id(body), k, frozenset(removed))
        if key in self._out:
            return self._out[key]
        self._out[key] = E("rec", (), ("out", body.path, k))
        be = self.be_spec(body, removed)
        vals = []
        sites = []
        for d in be.defs_by_local.get(0, []):
            if d.path or d.bb < 0 or d.bb not in be.cfg.live:
                continue
            v = be.def_value(d)
            alts = v.args if v.op == "phi" else (v,)
            if all((a.op == "adt" and a.info[1] == "Err") or (a.op == "call" and a.info.endswith("FromResidual::from_residual")) for a in alts):
                continue
            sites.append((d.bb, d.idx))
        if not sites or not body.ret_is_result():
            # (a function that does not return a Result has no failure exits; its _0 may even be the destination of the very
            # call that performs the mutation, so the value is read at the exits)
            sites = [(r, len(body.blocks[r].stmts)) for r in be.cfg.exits() if r in be.cfg.live]
        for (bb, idx) in sites:
            vals.append(be.ev_lp(bb, idx, k + 1, ()))
        v = mk_phi(vals) if vals else E("diverges")
        self._out[key] = v
        return v

    def callee_body(self, e):
        if e.op == "call":
            return self.prog.bodies.get(e.info)
        if e.op == "out":
            return self.prog.bodies.get(e.info[0])
        return None

    def expand(self, e):
        """one-step expansion of a workspace call / out-parameter node into the callee's
        summary with parameters substituted; returns e unchanged if not expandable"""
        b = self.callee_body(e)
        if b is None or not b.is_fn():
            return e
        args = e.args if e.op == "call" else e.args[1:]
        # a callee that switches on a parameter the caller passes as a constant (e.g. `&UnbondType::BSei`) is summarised on the
        # CFG pruned for that constant
        removed = frozenset()
        sp = self.__dict__.get("specialiser")
        if sp is not None:
            try:
                removed = frozenset(sp(b, args))
            except Exception:
                removed = frozenset()
        if e.op == "call":
            summ = self.ret_expr(b, removed)
        else:
            summ = self.out_expr(b, e.info[1], removed)
        return self.subst_params(summ, b, args)

    def subst_params(self, summ, body, args, upvars=None):
        bp = body.path

        def m(x):
            if x.op == "param" and x.info[0] == bp:
                i = x.info[1] - 1
                if 0 <= i < len(args):
                    return args[i]
            if upvars is not None and x.op == "upvar" and x.info[0] == bp:
                if x.info[1] < len(upvars):
                    return upvars[x.info[1]]
            return None
        return subst(summ, m)

    def apply_closure(self, clo, call_args):
        """value returned by closure expression `clo` (op closure) applied to call_args"""
        b = self.prog.bodies.get(clo.info)
        if b is None:
            return UNKNOWN
        summ = self.ret_expr(b)
        # closure params: local 1 = env, locals 2.. = args
        return self.subst_params(summ, b, [UNKNOWN] + list(call_args), upvars=list(clo.args))

    # ------------------------------------------------------------------ queries on exprs
    def ident(self, e, depth=0, expand_ws=True):
        """strip identity-preserving wrappers; returns the core expression"""
        key = (id(e), expand_ws)
        memo = self.__dict__.setdefault("_ident_memo", {})
        if key in memo:
            return memo[key][1]
        r = self._ident(e, depth, expand_ws)
        memo[key] = (e, r)
        return r

    def _ok_alts(self, inner, which, depth, expand_ws, tagged=False):
        """alternatives of `inner` that can be the Ok/Some payload; with tagged=True returns
        (expr, is_payload) pairs: is_payload False means the alternative is still the
        wrapper value (an opaque Option/Result expression)"""
        if inner.op == "call" and expand_ws and depth < 8:
            b = self.callee_body(inner)
            if b is not None and b.is_fn():
                inner = self.expand(inner)
        alts = inner.args if inner.op == "phi" else (inner,)
        keep = []
        for a in alts:
            if a.op == "call" and a.info.endswith("FromResidual::from_residual"):
                continue
            # opt.transpose()?  (Option<Result<T>> -> Result<Option<T>>): Some-payload of the Ok value = Ok-payload of the Some value
            if a.op == "proj" and a.info == "ok" and which == "some" and depth < 8:
                tc = self.ident(a.args[0], depth + 1, False) if a.args[0].op != "call" else a.args[0]
                if tc.op == "call" and isinstance(tc.info, str) and tc.info.endswith("Option::transpose") and tc.args:
                    for (p0, _) in self._ok_alts(tc.args[0], "some", depth + 1, expand_ws, True):
                        keep.extend(self._ok_alts(p0, "ok", depth + 1, expand_ws, True))
                    continue
            # Option / Result combinators that pass the payload through: x.ok(), x.filter(p), x.ok_or(e)
            if a.op == "call" and depth < 8 and a.args and self.callee_body(a) is None:
                if a.info == "std::option::Option::filter" and which == "some":
                    keep.extend(self._ok_alts(a.args[0], "some", depth + 1, expand_ws, True))
                    continue
                if a.info == "std::result::Result::ok" and which == "some":
                    keep.extend(self._ok_alts(a.args[0], "ok", depth + 1, expand_ws, True))
                    continue
                if a.info in ("std::option::Option::ok_or", "std::option::Option::ok_or_else") and which == "ok":
                    keep.extend(self._ok_alts(a.args[0], "some", depth + 1, expand_ws, True))
                    continue
                if a.info.endswith("bool::then") and which == "some" and len(a.args) == 2 and a.args[1].op == "closure":
                    keep.append((self.apply_closure(a.args[1], []), True))   # cond.then(|| v): Some(v) when cond holds
                    continue
                if a.info.endswith("bool::then_some") and which == "some" and len(a.args) == 2:
                    keep.append((a.args[1], True))
                    continue
                # x.map(f) / x.and_then(f): the closure applied to the payload of x
                if a.info in ("std::result::Result::map", "std::option::Option::map", "std::result::Result::and_then", "std::option::Option::and_then") \
                        and len(a.args) == 2 and a.args[1].op == "closure" and \
                        ((which == "ok") == a.info.startswith("std::result")):
                    inner_payload = simplify(E("proj", (a.args[0],), which))
                    r = self.apply_closure(a.args[1], [inner_payload])
                    if a.info.endswith("::map"):
                        keep.append((r, True))
                    else:
                        keep.extend(self._ok_alts(r, which, depth + 1, expand_ws, True))
                    continue
            if a.op == "adt" and a.info[1] in ("Ok", "Err", "Some", "None") and a.info[0].split("::")[-1] in ("Result", "Option"):
                if (which == "ok" and a.info[1] == "Ok") or (which == "some" and a.info[1] == "Some"):
                    keep.append((a.args[0], True))
                continue
            if a.op == "phi" or (a.op == "call" and self.callee_body(a) is not None and expand_ws and depth < 8):
                keep.extend(self._ok_alts(a, which, depth + 1, expand_ws, True))
                continue
            keep.append((a, False))
        return keep if tagged else [k for k, _ in keep]

    def _ident(self, e, depth, expand_ws):
        if depth > 40:
            return e
        op = e.op
        if op == "proj" and e.info in ("ok", "some"):
            keep = self._ok_alts(e.args[0], e.info, depth, expand_ws, True)
            if not keep:
                return e
            ids = []
            for a, is_payload in keep:
                if not expand_ws and not is_payload and a.op == "call" and self.callee_body(a) is not None:
                    # unexpanded workspace call: keep the Ok/Some projection (the call denotes the wrapper)
                    kept = e if a is e.args[0] else E("proj", (a,), e.info)
                    if kept not in ids:
                        ids.append(kept)
                    continue
                i = self.ident(a, depth + 1, expand_ws)
                if not is_payload and i is not a and i.op in ("phi", "adt"):
                    # the wrapper resolved to explicit Option/Result values: project again
                    for j in self._ok_alts(i, e.info, depth + 1, expand_ws):
                        jj = self.ident(j, depth + 1, expand_ws)
                        if jj not in ids:
                            ids.append(jj)
                    continue
                if i not in ids:
                    ids.append(i)
            if not ids:
                return e
            return ids[0] if len(ids) == 1 else mk_phi(ids)
        if op == "call":
            k = e.info
            if k in IDENT_ARG and len(e.args) > IDENT_ARG[k]:
                return self.ident(e.args[IDENT_ARG[k]], depth + 1, expand_ws)
            if k == "vec!":
                return e
            if isinstance(k, str) and (k == "std::default::Default::default" or k.endswith("Default>::default")) and not e.args:
                return DEFAULT  # `T::default()` is the same missing-entry value as `unwrap_or_default()`
            if isinstance(k, str) and k.rsplit("::", 1)[-1] in CHECKED_ARITH and len(e.args) == 2 and self.callee_body(e) is None:
                # library checked_add/sub/mul(a, b): canonical operator form (Ok payload; Err aborts like the operator's panic)
                return E("bin", e.args, CHECKED_ARITH[k.rsplit("::", 1)[-1]], e.site)
            if k in ("std::option::Option::unwrap_or_default", "std::result::Result::unwrap_or_default") and e.args:
                which = "some" if "Option" in k else "ok"
                return self.ident(mk_phi([simplify(E("proj", (e.args[0],), which)), DEFAULT]), depth + 1, expand_ws)
            if k == "std::option::Option::unwrap_or" and len(e.args) == 2:
                # selecting: the payload of arg0 when present, arg1 otherwise
                return self.ident(mk_phi([simplify(E("proj", (e.args[0],), "some")), e.args[1]]), depth + 1, expand_ws)
            if expand_ws and depth < 8:
                b = self.callee_body(e)
                if b is not None and b.is_fn():
                    x = self.expand(e)
                    if x is not e:
                        return self.ident(x, depth + 1, expand_ws)
            return e
        if op == "out" and depth < 8:
            b = self.callee_body(e)
            if b is not None and b.is_fn():
                x = self.expand(e)
                if x is not e:
                    return self.ident(x, depth + 1, expand_ws)
            return e
        if op == "phi":
            ids = []
            for a in e.args:
                i = self.ident(a, depth + 1, expand_ws)
                if i not in ids:
                    ids.append(i)
            return ids[0] if len(ids) == 1 else mk_phi(ids)
        if op == "field":
            b = self.ident(e.args[0], depth + 1, expand_ws)
            if b is e.args[0] or b == e.args[0]:
                return e
            ne = simplify(E("field", (b,), e.info))
            if ne.op == "field" and ne.args[0] == b:
                return ne
            return self.ident(ne, depth + 1, expand_ws)
        return e

    def norm(self, e, depth=0, expand_ws=True):
        """deep normal form: identity wrappers stripped at every level (workspace calls
        expanded unless expand_ws=False), for structural pattern matching on operand roles"""
        memo = self.__dict__.setdefault("_norm_memo", {})
        k = (id(e), expand_ws)
        if k in memo:
            return memo[k][1]
        memo[k] = (e, e)  # cycle guard
        i = self.ident(e, 0, expand_ws)
        if depth < 30 and i.args:
            na = tuple(self.norm(a, depth + 1, expand_ws) for a in i.args)
            if any(x is not y for x, y in zip(na, i.args)):
                i = E(i.op, na, i.info, i.site)
        memo[k] = (e, i)
        return i

    EFFECT_PREFIXES = ("cw_storage_plus::", "cosmwasm_storage::", "cosmwasm_std::QuerierWrapper", "cosmwasm_std::Storage::",
                       "cosmwasm_std::Api::", "cw2::")

    def is_pure(self, body, depth=0):
        """no storage access, query or api call in the body or its workspace callees"""
        if body is None or not body.is_fn():
            return False
        memo = self.__dict__.setdefault("_pure", {})
        if body.path in memo:
            return memo[body.path]
        memo[body.path] = False  # recursion guard
        ok = True
        for blk in body.calls():
            c = blk.term.callee
            key = callee_key(c)
            if any(key.startswith(p) or strip_generics(c.path).startswith(p) for p in self.EFFECT_PREFIXES):
                ok = False
                break
            g = self.prog.bodies.get(strip_generics(c.dpath))
            if g is not None and g.is_fn() and depth < 8 and not self.is_pure(g, depth + 1):
                ok = False
                break
        if ok:
            for cb in self.prog.closures_of(body):
                if not self.is_pure(cb, depth + 1):
                    ok = False
        memo[body.path] = ok
        return ok
