"""C14 - bSei reward pool solvent and complete: structural clauses (DESIGN 6, C14)."""
from ..callgraph import explore, storage_effects, message_effects, site_guarded
from ..expr import show, arith_args
from ..ledger import ledger_entries, lost_updates
from .common import entry, msg_enum, variant_env, stored, where
from .msgs import vec_elems, coin_parts, is_zero_fact
from .reward_common import HOLDERS, RSTATE, RWCFG, LEDGER, unratio, split_sum, accrual_roles, holder_label, is_one


def run(prog, world, sem, rep):
    rep.rule("C14.a", "ClaimRewards: the amount subtracted from State.prev_reward_balance is the amount sent, which is the whole-unit part of "
             "(accrued + pending) of the caller's holder record; pending_rewards keeps exactly the fractional remainder; Holder.index := "
             "State.global_index; every write and the transfer happen only after the amount was observed non-zero; coin denom = Config.reward_denom", 7)
    rep.rule("C14.c", "ClaimRewards refuses only when nothing is payable: every explicit error exit of the claim handler is reachable only through "
             "the edge on which the payable amount was observed zero (settled pending rewards are always claimable)", 1)
    rep.rule("C14.b", "UpdateGlobalIndex: new rewards = checked_sub(own balance of Config.reward_denom, State.prev_reward_balance); "
             "prev_reward_balance := that balance; global_index += from_ratio(new rewards, State.total_balance); nothing is written when "
             "total_balance is zero", 4)

    rep.rule("C14.d", "no lost update of the reward contract's State / Config: in every execute variant a value saved to a single-value cell that "
             "was computed from an earlier load has no other write of that cell (directly or in a callee) between the load and the save", 6)

    ex = entry(prog, "reward")
    adt_path0, adt0 = msg_enum(prog, ex)
    for vn in [x["name"] for x in adt0["variants"]]:
        lu = lost_updates(sem, storage_effects(sem, explore(sem, ex, variant_env(prog, ex, vn))))
        det = "every saved single-value cell is computed from a load with no write in between"
        if lu:
            (sv, sbb, A, lbb, wv_, wbb, cell) = lu[0]
            det = "%s saved at %s is computed from the load at line %d of %s, but %s writes the same cell in between: the save writes the stale copy back" % (
                cell.split("::")[-1], where(sv.body, sbb), A.body.blocks[lbb].term.line, A.body.path, wv_.body.path)
        rep.ob("C14.d", "reward::%s saves no stale copy of a single-value cell" % vn, not lu, det, where(ex), key="C14.d | reward::%s" % vn)
    # ---------------------------------------------------------------- C14.a
    vs = explore(sem, ex, variant_env(prog, ex, "ClaimRewards"))
    eff = storage_effects(sem, vs)
    ents = [x for x in ledger_entries(sem, eff, LEDGER) if x["what"][0] != "preserved"]
    by = {(x["cell"], x["field"]): x for x in ents}
    sends = [(vis, bb, e) for (vis, bb, i, e) in message_effects(sem, vs) if e.info[0].endswith("BankMsg") and e.info[1] == "Send"]
    prev = by.get((RSTATE, "prev_reward_balance"))
    ok = prev is not None and prev["what"][0] == "delta" and prev["what"][1] == -1
    rep.ob("C14.a", "recorded balance decremented", ok, "State.prev_reward_balance: %s" % (prev["what"][:2] if prev else None,), where(ex))
    paid = world.norm(prev["what"][2]) if ok else None
    sent = None
    if len(sends) == 1:
        vis, bb, e = sends[0]
        d = dict(zip(e.info[2], e.args))
        elems = vec_elems(world, d["amount"]) or []
        if len(elems) == 1:
            amt, denom = coin_parts(world, sem, elems[0])
            sent = world.norm(amt)
            rep.ob("C14.a", "reward coin denom", sem.label(denom) == stored(RWCFG, "reward_denom"), "denom %s" % (sem.label(denom),), where(vis.body, bb))
    rep.ob("C14.a", "amount sent = amount deducted from the recorded balance", sent is not None and sent == paid,
           "sent %s, deducted %s" % (show(sent, 4) if sent else None, show(paid, 4) if paid else None), where(ex))
    # paid = (accrued + pending) x 1 ; pending := (accrued + pending) - from_ratio(paid, 1)
    total = None
    if paid is not None and paid.op == "bin" and paid.info == "Mul" and any(is_one(world.ident(a)) for a in paid.args):
        total = [a for a in paid.args if not is_one(world.ident(a))][0]
    acc, pl = split_sum(world, sem, total) if total is not None else (None, None)
    okr, detail, hk = accrual_roles(world, sem, acc) if acc is not None else (False, "paid amount is not whole-part(accrued + pending): %s" % (show(paid, 5) if paid else None), None)
    rep.ob("C14.a", "paid = whole units of (accrued + pending) of one holder", okr and pl is not None and pl[2] == hk and hk == ("sender",),
           "%s; holder key %s pending key %s" % (detail, hk, pl[2] if pl else None), where(ex))
    pend = by.get((HOLDERS, "pending_rewards"))
    okp = False
    if pend is not None and pend["what"][0] == "absolute" and total is not None:
        n = world.norm(pend["what"][1])
        okp = n.op == "bin" and n.info == "Sub" and n.args[0] == world.norm(total) and unratio(world, n.args[1]) == paid
    rep.ob("C14.a", "pending_rewards := fractional remainder", okp, "pending_rewards written: %s" % (show(world.norm(pend["what"][1]), 4) if pend and pend["what"][1] is not None else None), where(ex))
    idx = by.get((HOLDERS, "index"))
    oki = idx is not None and idx["what"][0] == "absolute" and sem.label(idx["what"][1]) == stored(RSTATE, "global_index") and idx["key"] == ("sender",)
    rep.ob("C14.a", "Holder.index := State.global_index", oki, "index written: %s" % (sem.label(idx["what"][1]) if idx and idx["what"][1] is not None else None,), where(ex))
    # zero amount -> Err before any write
    if paid is not None:
        raw_paid = world.ident(prev["what"][2])

        def fp(f, resolve):
            return is_zero_fact(world, f, resolve, raw_paid) or (f[0] == "truth" and f[2] is False and f[1].op == "call"
                                                                 and f[1].info.endswith("::is_zero") and world.norm(resolve(f[1].args[0])) == paid)
        bad = []
        n = 0
        for (vis, bb, kind, cell, key, val, e) in eff:
            if kind in ("write", "update", "remove"):
                n += 1
                g, d = site_guarded(sem, vis, bb, fp)
                if not g:
                    bad.append("%s %s: %s" % (kind, cell, d))
        rep.ob("C14.a", "no write before the zero-amount test", n > 0 and not bad, "; ".join(bad) if bad else "%d writes all behind amount != 0" % n, where(ex))

    # ---------------------------------------------------------------- C14.c
    from .common import arm_handler
    hclaim = arm_handler(sem, vs)
    if paid is not None:
        raw_paid2 = world.ident(prev["what"][2])

        def fzero(f, resolve):
            if f[0] == "truth" and f[2] is True and f[1].op == "call" and f[1].info.endswith("::is_zero"):
                return world.ident(resolve(f[1].args[0])) == raw_paid2 or world.norm(resolve(f[1].args[0])) == paid
            return False
        be = hclaim.be
        pe = set()
        for blk in hclaim.body.blocks:
            if blk.term.kind == "switch" and blk.idx in be.cfg.live:
                for succ, fl in sem.edge_facts(be, blk.idx).items():
                    if any(fzero(f, hclaim.resolve) for f in fl):
                        pe.add((blk.idx, succ))
        r = be.cfg.reach([0], removed=pe)
        errs = [(bb, x) for (bb, idx, kind, x) in sem.ret_sites(be) if kind == "err" and x.op == "adt" and bb in hclaim.blocks]
        bad = [hclaim.body.blocks[bb].term.line for (bb, x) in errs if bb in r]
        rep.ob("C14.c", "claim is refused only for a zero payable amount", bool(errs) and not bad,
               "explicit error exit(s) at line(s) %s reachable although the payable amount (accrued + pending, whole units) was not observed zero" % bad if bad or not errs
               else "%d explicit refusal(s), all behind payable == 0" % len(errs), where(hclaim.body))

    # ---------------------------------------------------------------- C14.b
    vs = explore(sem, ex, variant_env(prog, ex, "UpdateGlobalIndex"))
    eff = storage_effects(sem, vs)
    ents = [x for x in ledger_entries(sem, eff, LEDGER) if x["what"][0] != "preserved"]
    by = {(x["cell"], x["field"]): x for x in ents}
    extra = [k for k in by if k not in ((RSTATE, "prev_reward_balance"), (RSTATE, "global_index"))]
    rep.ob("C14.b", "only prev_reward_balance and global_index change", not extra and len(by) == 2, "changed fields: %s" % sorted(map(str, by)), where(ex))
    prev = by.get((RSTATE, "prev_reward_balance"))
    bal_l = sem.label(prev["what"][1]) if prev and prev["what"][0] == "absolute" else None
    okb = bal_l is not None and bal_l[0] == "balance" and bal_l[1] == ("self",) and bal_l[2] == stored(RWCFG, "reward_denom") and bal_l[3] == ("amount",)
    rep.ob("C14.b", "prev_reward_balance := own balance of reward_denom", okb, "written: %s" % (bal_l,), where(ex))
    gi = by.get((RSTATE, "global_index"))
    okg = False
    detail = "global_index: %s" % (gi["what"][:2] if gi else None,)
    if gi is not None and gi["what"][0] == "delta" and gi["what"][1] == 1:
        inc = world.norm(gi["what"][2])
        if inc.op == "call" and inc.info.endswith("Decimal::from_ratio"):
            num, den = inc.args
            num = world.ident(num)
            okg = sem.label(den) == stored(RSTATE, "total_balance") and arith_args(num, "Sub") is not None \
                and sem.label(arith_args(num, "Sub")[0]) == bal_l and sem.label(arith_args(num, "Sub")[1]) == stored(RSTATE, "prev_reward_balance")
            detail = "increment from_ratio(%s, %s)" % (show(num, 3), sem.label(den))
    rep.ob("C14.b", "index += (balance - recorded) / total_balance", okg, detail, where(ex))

    def fz(f, resolve):
        return f[0] == "truth" and f[2] is False and f[1].op == "call" and f[1].info.endswith("::is_zero") and \
            sem.label(resolve(f[1].args[0])) == stored(RSTATE, "total_balance")
    bad = []
    n = 0
    for (vis, bb, kind, cell, key, val, e) in eff:
        if kind in ("write", "update", "remove"):
            n += 1
            g, d = site_guarded(sem, vis, bb, fz)
            if not g:
                bad.append(d)
    rep.ob("C14.b", "nothing written while no one holds bSei", n > 0 and not bad, "; ".join(bad) if bad else "%d writes behind total_balance != 0" % n, where(ex))
