"""Helpers to take message-construction expressions apart."""
from ..expr import E, simplify, show


def vec_elems(world, e):
    """elements of a Vec expression built by vec![..] / Vec::new(); None if unknown shape"""
    e = world.ident(e)
    if e.op == "call" and e.info == "vec!":
        arr = e.args[0]
        if arr.op == "array":
            return list(arr.args)
        return None
    if e.op == "call" and e.info in ("std::vec::Vec::new", "std::vec::Vec::with_capacity"):
        return []
    if e.op == "call" and e.info in ("cosmwasm_std::coins",):
        return [E("adt", (e.args[1], e.args[0]), ("cosmwasm_std::Coin", "", ("denom", "amount")))]
    if e.op == "phi":
        out = []
        for a in e.args:
            x = vec_elems(world, a)
            if x is None:
                return None
            out.extend(x)
        return out
    return None


def coin_parts(world, sem, c):
    """(amount expr, denom expr) of a Coin-valued expression"""
    c = world.ident(c)
    if c.op == "adt" and c.info[0].endswith("Coin"):
        d = dict(zip(c.info[2], c.args))
        return d.get("amount"), d.get("denom")
    if c.op == "call" and c.info in ("cosmwasm_std::Coin::new", "cosmwasm_std::coin"):
        return c.args[0], c.args[1]
    return sem.field_of(c, "amount"), sem.field_of(c, "denom")


def wasm_execute(world, sem, e):
    """for WasmMsg::Execute{contract_addr,msg,funds}: (target label, payload expr or None, funds expr, contract expr)"""
    if e.op != "adt" or not e.info[0].endswith("WasmMsg") or e.info[1] != "Execute":
        return None
    d = dict(zip(e.info[2], e.args))
    payload = sem.payload(d["msg"])
    return sem.label(d["contract_addr"]), payload, d["funds"], d["contract_addr"]


def is_zero_fact(world, f, resolve, amount_id):
    """does edge fact f establish `amount != 0` for the value whose identity is amount_id?"""
    if f[0] == "truth" and f[2] is False and f[1].op == "call" and f[1].info.endswith("::is_zero"):
        return world.ident(resolve(f[1].args[0])) == amount_id
    if f[0] == "cmp" and f[1] in ("Lt", "Ne"):
        a = world.ident(resolve(f[2]))
        b = world.ident(resolve(f[3]))
        za = is_zero_const(a)
        zb = is_zero_const(b)
        if f[1] == "Lt":
            return za and b == amount_id  # 0 < amount
        return (za and b == amount_id) or (zb and a == amount_id)
    return False


def is_zero_const(e):
    if e.op == "call" and e.info.endswith("::zero"):
        return True
    if e.op == "const" and e.info[0] == "scalar" and e.info[1] == 0:
        return True
    return False
