"""Symbolic value expressions (A4). An E is an immutable DAG node describing where a value
comes from: parameters, constants, storage loads, queries, aggregates, calls, operators,
phi-merges of alternative definitions.  Nothing is evaluated numerically."""

from .ir import strip_generics


class E:
    __slots__ = ("op", "args", "info", "site", "_h")

    def __init__(self, op, args=(), info=None, site=None):
        self.op = op
        self.args = tuple(args)
        self.info = info
        self.site = site  # (body_path, bb) for calls/loads - not part of equality
        self._h = None

    def __hash__(self):
        if self._h is None:
            self._h = hash((self.op, self.args, self.info))
        return self._h

    def __eq__(self, o):
        return (self is o) or (isinstance(o, E) and self.op == o.op and hash(self) == hash(o)
                               and self.info == o.info and self.args == o.args)

    def __repr__(self):
        return show(self)


def show(e, depth=6):
    if depth <= 0:
        return "…"
    op = e.op
    a = lambda i: show(e.args[i], depth - 1)
    al = lambda: ", ".join(show(x, depth - 1) for x in e.args)
    if op == "param":
        return "param:%s" % (e.info[2] or e.info[1])
    if op == "upvar":
        return "upvar:%s" % (e.info[2] or e.info[1])
    if op == "const":
        return "%s:%s" % (e.info[0], e.info[1])
    if op == "adt":
        nm = e.info[0].split("::")[-1] + ("::" + e.info[1] if e.info[1] else "")
        return "%s{%s}" % (nm, ", ".join("%s: %s" % (f, show(x, depth - 1)) for f, x in zip(e.info[2], e.args)))
    if op == "field":
        return "%s.%s" % (a(0), e.info[0] if not e.info[2] else "%s::%s" % (e.info[2], e.info[0]))
    if op == "call":
        return "%s(%s)" % (short(e.info), al())
    if op == "out":
        return "out[%s#%d](%s)" % (short(e.info[0]), e.info[1], al())
    if op == "bin":
        return "%s(%s)" % (e.info, al())
    if op == "un":
        return "%s(%s)" % (e.info, al())
    if op == "phi":
        return "phi(%s)" % al()
    if op == "proj":
        return "%s!%s" % (a(0), e.info)
    if op == "tuple":
        return "(%s)" % al()
    if op == "array":
        return "[%s]" % al()
    if op == "closure":
        return "closure<%s>(%s)" % (short(e.info), al())
    if op == "discr":
        return "discr(%s)" % al()
    if op == "elem":
        return "%s[]" % a(0)
    if op == "load":
        return "load<%s>(%s)" % (e.info, al())
    return "%s<%s>(%s)" % (op, e.info, al())


def short(p):
    p = strip_generics(p)
    parts = p.split("::")
    return "::".join(parts[-2:]) if len(parts) > 2 else p


def mk_phi(items):
    flat = []
    seen = set()
    for x in items:
        xs = x.args if x.op == "phi" else (x,)
        for y in xs:
            if y not in seen:
                seen.add(y)
                flat.append(y)
    if len(flat) == 1:
        return flat[0]
    return E("phi", flat)


UNKNOWN = E("unknown")
DEFAULT = E("const", (), ("default", ""))

# ---------------------------------------------------------------------------------------
# Library model (DESIGN Appendix B).  Callee paths are matched after strip_generics().

# result is an unmodified copy of argument k (identity-preserving)
IDENT_ARG = {
    "std::clone::Clone::clone": 0,
    "std::string::ToString::to_string": 0,
    "std::borrow::ToOwned::to_owned": 0,
    "std::string::String::as_str": 0,
    "std::string::String::as_bytes": 0,
    "std::string::String::into_bytes": 0,
    "core::str::as_bytes": 0,
    "std::ops::Deref::deref": 0,
    "std::ops::DerefMut::deref_mut": 0,
    "std::convert::AsRef::as_ref": 0,
    "std::convert::Into::into": 0,
    "std::convert::From::from": 0,
    "cosmwasm_std::Addr::as_str": 0,
    "cosmwasm_std::Addr::as_bytes": 0,
    "cosmwasm_std::Addr::into_string": 0,
    "cosmwasm_std::Addr::unchecked": 0,
    "cosmwasm_std::CanonicalAddr::as_slice": 0,
    "cosmwasm_std::Api::addr_validate": 1,
    "cosmwasm_std::Api::addr_canonicalize": 1,
    "cosmwasm_std::Api::addr_humanize": 1,
    "cosmwasm_std::DepsMut::as_ref": 0,
    "cosmwasm_std::Timestamp::seconds": 0,
    "cosmwasm_std::Uint128::u128": 0,
    "cosmwasm_std::Uint128::new": 0,
    "std::vec::Vec::as_slice": 0,
    "std::option::Option::as_ref": 0,
    "std::option::Option::as_deref": 0,
    "std::option::Option::unwrap": 0,
    "std::option::Option::ok_or_else": 0,
    "std::option::Option::ok_or": 0,
    "std::option::Option::expect": 0,
    "std::option::Option::cloned": 0,
    "std::option::Option::copied": 0,
    "std::result::Result::expect": 0,
    "std::result::Result::unwrap": 0,
    "std::result::Result::map_err": 0,
    "std::iter::IntoIterator::into_iter": 0,
    "core::slice::iter": 0,
    "core::slice::iter_mut": 0,
    "std::iter::Iterator::enumerate": 0,
    "std::iter::Iterator::take": 0,
    "std::slice::to_vec": 0,
    "std::hint::must_use": 0,
    "cosmwasm_std::to_json_vec": 0,
    "core::num::to_be_bytes": 0,
    "cosmwasm_std::CosmosMsg::from": 0,
}

# trait-method names whose impls are identity-preserving whatever the Self type
IDENT_TRAIT_METHODS = {
    ("std::clone::Clone", "clone"): 0,
    ("std::string::ToString", "to_string"): 0,
    ("std::ops::Deref", "deref"): 0,
    ("std::ops::DerefMut", "deref_mut"): 0,
    ("std::convert::AsRef", "as_ref"): 0,
    ("std::convert::Into", "into"): 0,
    ("std::convert::From", "from"): 0,
    ("std::iter::IntoIterator", "into_iter"): 0,
    ("std::borrow::ToOwned", "to_owned"): 0,
}

# wrap the payload: result is Ok(arg0)/Some(arg0)-like; unwrap: payload of arg0
UNWRAP_FNS = {
    "std::option::Option::unwrap": "Some",
    "std::option::Option::unwrap_or_default": "Some",
    "std::result::Result::unwrap": "Ok",
    "std::result::Result::unwrap_or_default": "Ok",
}

ARITH_TRAITS = {
    "std::ops::Add": "Add", "std::ops::Sub": "Sub", "std::ops::Mul": "Mul", "std::ops::Div": "Div",
    "std::ops::Rem": "Rem",
}
ASSIGN_TRAITS = {
    "std::ops::AddAssign": "Add", "std::ops::SubAssign": "Sub", "std::ops::MulAssign": "Mul",
}
CMP_METHODS = {
    ("std::cmp::PartialEq", "eq"): "Eq", ("std::cmp::PartialEq", "ne"): "Ne",
    ("std::cmp::PartialOrd", "lt"): "Lt", ("std::cmp::PartialOrd", "le"): "Le",
    ("std::cmp::PartialOrd", "gt"): "Gt", ("std::cmp::PartialOrd", "ge"): "Ge",
}


CHECKED_ARITH = {"checked_add": "Add", "checked_sub": "Sub", "checked_mul": "Mul"}


def arith_args(e, op):
    """operands of e when it is the binary operation `op` (Add/Sub/Mul), in operator form or as the library's checked_<op>(a, b)
    (the Ok payload; the Err case aborts the transaction just as the operator's overflow panic does)"""
    if e is None:
        return None
    if e.op == "bin" and e.info == op and len(e.args) == 2:
        return e.args
    if e.op == "call" and len(e.args) == 2 and isinstance(e.info, str) and CHECKED_ARITH.get(e.info.rsplit("::", 1)[-1]) == op:
        return e.args
    return None


def callee_key(c):
    """canonical name used by the model tables: trait path + method for trait calls,
    stripped def path otherwise"""
    if c.trait:
        return "%s::%s" % (strip_generics(c.trait), c.name)
    return strip_generics(c.path)


def walk(e, fn, memo=None):
    """pre-order walk over the DAG, each distinct node once"""
    if memo is None:
        memo = set()
    stack = [e]
    while stack:
        x = stack.pop()
        if id(x) in memo:
            continue
        memo.add(id(x))
        if fn(x) is False:
            continue
        stack.extend(x.args)


def find(e, pred):
    out = []

    def f(x):
        if pred(x):
            out.append(x)
    walk(e, f)
    return out


def subst(e, mapping, memo=None):
    """replace leaves by mapping(e) -> E|None"""
    if memo is None:
        memo = {}
    k = id(e)
    if k in memo:
        return memo[k]
    r = mapping(e)
    if r is None:
        if e.args:
            na = tuple(subst(a, mapping, memo) for a in e.args)
            if all(x is y for x, y in zip(na, e.args)):
                r = e
            else:
                r = simplify(E(e.op, na, e.info, e.site))
        else:
            r = e
    memo[k] = r
    return r


def simplify(e):
    """local algebraic simplification used at construction time"""
    op = e.op
    if op == "field":
        base = e.args[0]
        name, owner, variant = e.info
        if base == DEFAULT:
            return DEFAULT
        if base.op == "adt":
            if (not variant or base.info[1] == variant or not base.info[1]) and name in base.info[2]:
                return base.args[base.info[2].index(name)]
        if base.op == "tuple" and name.isdigit() and int(name) < len(base.args):
            return base.args[int(name)]
        if base.op == "bin" and base.info.endswith("WithOverflow") and name == "0":
            return E("bin", base.args, base.info[:-len("WithOverflow")], base.site)
        if base.op == "phi":
            return mk_phi([simplify(E("field", (b,), e.info)) for b in base.args])
        if variant in ("Continue", "Ok", "Some") and name == "0":
            inner = base
            if variant == "Continue" and inner.op == "call" and inner.info.endswith("Try::branch"):
                inner = inner.args[0]
            return simplify(E("proj", (inner,), "ok" if variant != "Some" else "some"))
        if variant in ("Break", "Err") and name == "0":
            inner = base
            if variant == "Break" and inner.op == "call" and inner.info.endswith("Try::branch"):
                inner = inner.args[0]
            return E("proj", (inner,), "err")
    if op == "proj":
        b = e.args[0]
        if b.op == "adt" and b.args:
            v = b.info[1]
            if (e.info == "ok" and v == "Ok") or (e.info == "some" and v == "Some") or (e.info == "err" and v == "Err"):
                return b.args[0]
        if b.op == "phi":
            # drop alternatives that are definitely the other variant
            keep = []
            for x in b.args:
                if x.op == "adt" and x.info[1] in ("Ok", "Err", "Some", "None"):
                    v = x.info[1]
                    if (e.info == "ok" and v == "Ok") or (e.info == "some" and v == "Some") or (e.info == "err" and v == "Err"):
                        keep.append(x.args[0])
                    continue
                keep.append(simplify(E("proj", (x,), e.info)))
            if keep:
                return mk_phi(keep)
    return e
