#!/bin/bash
# extract.sh <out_dir> [repo_dir] : run the fact extractor over the workspace
set -e
OUT="$1"; REPO="${2:-/repo}"
DRV=/verif/driver/target/release/krp-facts
mkdir -p "$OUT"
T=$(mktemp -d /tmp/krp-target.XXXXXX)
trap 'rm -rf "$T"' EXIT
cd "$REPO"
KRP_FACTS_DIR="$OUT" CARGO_NET_OFFLINE=true \
  LD_LIBRARY_PATH="$(rustc +nightly --print sysroot)/lib" \
  RUSTFLAGS="-Zmir-opt-level=0 -Awarnings" \
  RUSTC_WORKSPACE_WRAPPER="$DRV" CARGO_TARGET_DIR="$T" \
  cargo +nightly check --offline --workspace --quiet 2>"$OUT/cargo.log" || { tail -40 "$OUT/cargo.log"; exit 3; }
