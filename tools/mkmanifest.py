#!/usr/bin/env python3
"""Regenerates /verif/MANIFEST.json from the table below (one place to keep claims honest)."""
import json
import os

VERIF = os.path.dirname(os.path.dirname(os.path.abspath(__file__)))
import sys
sys.path.insert(0, VERIF)
from krpsa.rules.premises import PREMISES  # noqa: E402

TB = ("Trusted: rustc MIR/callee resolution for the pinned nightly; the krp-facts extractor and krpsa engine "
      "(validated by seeded mutants and silent variants, not verified); CosmWasm revert-on-error semantics; library "
      "semantics by name for cosmwasm_std / cw-storage-plus / cosmwasm-storage / cw20-base 0.16.0 (version pin checked); "
      "operating envelope of DESIGN.md section 4.")

CLAIMS = {
    "C10": dict(
        text="Decides, for every message variant of all six contracts and every sender, that a privileged variant can reach a "
             "success exit only through a CFG edge on which info.sender == designated principal was observed (interprocedural "
             "must-pass-through on MIR, specialised per variant); that principal cells are written only by their designated guarded "
             "variants; two-step ownership value flow; hub token addresses write-once; minter wiring. One graph query covers all "
             "senders and states, which no finite test can. 'Changes nothing' relies on CosmWasm's revert."
             " Also: SetOwner / AcceptOwnership cannot succeed without writing the nominee cell / the owner field (a withdrawn nomination cannot be accepted).",
        technique="MIR must-pass-through (pass-edge reachability) + value provenance + per-variant effect sets",
        ref="6/C10"),
    "C11": dict(
        text="Decides that in hub execute every variant except the two exemptions reaches success only through the edge where "
             "paused.unwrap_or(false) was observed false; exemptions write only PARAMETERS / wait-list buckets and emit nothing; "
             "every PARAMETERS writer that can store paused != Some(true) is dominated by an observed-empty legacy list "
             "(3-valued specialisation); queries never read the flag."
             " Also: the migration unpauses only after having found and migrated legacy entries.",
        technique="MIR pass-edge reachability + constant-propagation specialisation + effect sets",
        ref="6/C11"),
    "C20": dict(
        text="Decides, for every instantiate/update writer of the three bounded fields, that the stored value is the old value, "
             "min(.,1), or an incoming value whose write is reachable only through the edge v <= 1 / option-absent; frozen fields are "
             "only re-stored with their stored value and a present stsei_reward_denom has no success exit; for ~25 updatable fields the "
             "written value derives only from its own stored value or the tabled message field (2^n option combinations decided by n "
             "provenance queries). 'A rejected update changes nothing' is CosmWasm's revert.",
        technique="per-field value provenance over storage writers + guarded-site reachability on MIR",
        ref="6/C20"),
    "C17": dict(
        text="Decides the structural clauses only: every BankMsg::Send / non-empty funds in the workspace carries an amount that was "
             "observed non-zero on every path (3 genuine dispatcher sites are known findings; any other unguarded site is a violation); "
             "keeper amount = own balance x keeper rate in the same denom; forwarded shares are balance - keeper of the same denom "
             "(complement: nothing retained); index update last and after the bSei share; operand roles of the share formula and "
             "offer/ask denom pairing in the swap computation. NOT decided: offer <= holdings and the share equality at the oracle "
             "price (numeric)."
             " Also: the reward totals are accumulated over one query_all_balances answer (each coin counted once); the conversion swaps precede the rebalancing swap that spends their proceeds."
             " Also (C17.j): every success exit of DispatchRewards passes each keeper transfer, except on an edge where that balance or the cut was observed zero.",
        technique="guarded-site reachability + operand-role provenance on MIR expressions; known-findings by exact key",
        ref="6/C17"),
    "C18": dict(
        text="Decides ledger conservation by shape for every cw20-legacy (bSei) variant and instantiate: each balance write is a delta "
             "on the expected account, signed deltas sum to the total_supply delta with the same amount, no absolute overwrite of a "
             "possibly existing balance (this rule found the repeated-initial-address defect, repaired by the fix: commit); hub-only "
             "Mint/Burn guards; allowance deducted first with identical owner/spender/amount, failing on expiry, checked_sub; "
             "CheckSlashing on the three burn paths. The stSei ledger is the version-pinned external cw20-base 0.16.0 (pin checked), "
             "trusted, not analysed. Sum-over-accounts equality in every reachable state follows by induction over operations, "
             "which is argued in DESIGN, not mechanised."
             " Also: every saved ledger value is computed from a fresh read (no stale read-modify-write when accounts coincide)."
             " Also (C18.h): the expiry stored by Increase/DecreaseAllowance is the message's Some(expiry) or the entry's own - never a default substituted for an omitted field.",
        technique="ledger-delta summaries from MIR write shapes + dominance + guard reachability + lockfile pin",
        ref="6/C18"),
    "C16": dict(
        text="Decides per-operation mirror agreement: for each of the 9 bSei variants the multiset of reward messages "
             "{Increase|Decrease(address, amount)} equals the cw20 ledger's balance deltas (account, sign, amount) read from the MIR "
             "write shapes; mirror messages precede the receive hook; the reward side applies the same signed amount to the holder "
             "record keyed by the message address and to total_balance; the message target is the dispatcher-configured reward "
             "contract. Equality of the two stores in every reachable state follows by induction over operations (argued, not mechanised)."
             " Also: every success exit of a balance-changing bSei variant passes the construction of each mirror message, except on an edge where the debited and credited accounts were observed equal; the reward side writes both stores on every success path.",
        technique="ledger-delta summaries vs emitted-message multiset (sibling agreement) on MIR",
        ref="6/C16"),
    "C14": dict(
        text="Decides only the structural clauses: ClaimRewards decrements the recorded balance by exactly what it sends (the whole-unit "
             "part of accrued + pending of the caller's record), keeps exactly the fractional remainder, advances the holder index, "
             "writes nothing before the non-zero test; UpdateGlobalIndex computes new rewards as own balance minus recorded balance, "
             "records the balance, divides by total_balance and writes nothing when no one holds bSei. NOT decided: the inequalities "
             "sum(claimable) <= recorded <= actual and the dust bounds (numeric over populations)."
             " Also: ClaimRewards refuses only a zero payable amount; no lost update of the State / Config of the reward contract.",
        technique="operand-role pattern matching on normalised MIR value expressions + guarded-site reachability",
        ref="6/C14"),
    "C15": dict(
        text="Decides only settle-before-mutate and operand roles: balance-changing messages add to pending the accrual computed from the "
             "holder's previous balance and index (flow-sensitive reaching definitions make a reordering visible), advance the index, "
             "then change the balance; every accrual is (global - holder index) x holder balance of one record keyed by the right "
             "address. NOT decided: proportionality and independence (relational, numeric)."
             " Also: no message removes a holder record or lowers pending_rewards other than the claim.",
        technique="flow-sensitive value provenance (reaching definitions) + operand-role matching",
        ref="6/C15"),
    "C07": dict(
        text="Decides per-operation agreement for both unbond handlers (discovered structurally under hook variant x registered token): "
             "the amount added to the batch total is the amount added (never overwritten) to the sender's wait-list entry of the right "
             "token type, keyed by the batch id as loaded; Burn burns exactly the amount sent on the token that sent the hook; the wait "
             "list has exactly three kinds of writers (unbond store, owner's withdraw remove, legacy migration); history copies the "
             "totals before the roll-over zeroes them and bumps the id by one; query field fidelity; the token delivers "
             "Cw20ReceiveMsg{sender: info.sender, amount}. Sum-over-users = batch total in every reachable state follows by induction "
             "over operations (argued in DESIGN, not mechanised)."
             " Also (C07.i): the AllHistory list is collected from the store's range cut only by take(limit) - nothing skipped or filtered.",
        technique="specialised call-graph exploration + ledger-delta shapes + value provenance on MIR",
        ref="6/C07"),
    "C08": dict(
        text="Decides for every placement of transactions (the boundary second included, because the comparison operator and its operands are "
             "read from the MIR): the roll-over is reachable only through (now - last_unbonded_time) > epoch_period (strict); every in-loop "
             "effect of the releasing loop is behind entry-exists, time <= now - unbonding_period and not-released; the batch id only "
             "changes by the roll-over's +1; the history map has exactly two writers and the releaser rewrites only `released` and the "
             "withdraw rates of the key it read; the recorded rates are the ones that price the undelegated amount and the pools are "
             "reduced by those products. Assumes now - period does not wrap in u64 (envelope)."
             " Also: the history entry records the roll-over's own block time; no lost update of State / CurrentBatch / Parameters / Config in any hub variant (a value saved from an earlier load with a write of the same cell in between, directly or in a callee)."
             " Also (C08.g): a writer of CURRENT_BATCH that can store the rolled-over id stores the roll-over's reset of both request totals with it.",
        technique="guard-edge reachability (operator-exact) + writer inventory + value provenance on MIR",
        ref="6/C08"),
    "C01": dict(
        text="Decides only the structural clauses of 'paid exactly once, only when released': a share is added only after released == true "
             "of the history entry with the same batch key as the wait entry; the id is queued for removal exactly there; the handler has "
             "no success exit without the remover's success for info.sender and that id list, and the remover deletes every listed id; "
             "amount x withdraw-rate pairing per token; payout wiring (denom, own-balance query, prev_hub_balance := balance - paid); "
             "rates processed before the payable computation; the summing and releasing loops agree on start and on all three "
             "continuation conditions; per-token arguments of the withdraw-rate computation; arrived coins = balance - recorded balance "
             "with a negative difference an error. NOT decided: solvency (balance covers all matured claims), total paid <= arrived, "
             "dust bounds, order independence across release groups (numeric over histories)."
             " Also: the payable loop has no early exit towards success (every wait-list entry is visited); share and removal id go together in either order."
             " Also (C01.j): whenever the group released together lost coins, the loss share subtracted from a batch is floor(weight x loss) + 1, and a surplus is credited as floor - 1 or 0 (operand-role rule on the withdraw-rate function; the numeric bound itself is not decided).",
        technique="loop-body guard reachability, sibling-loop agreement, pairing/provenance on MIR expressions",
        ref="6/C01"),
    "C05": dict(
        text="Decides the three structural clauses on all four fee paths (discovered as subtractions of min(x, y) with a peg_recovery_fee "
             "factor): the fee subtraction is reachable only through the strict bsei_exchange_rate < er_threshold edge on the "
             "re-synchronised state; the fee is min(no-fee amount x fee rate, required fee) with the cap built from the same no-fee amount; "
             "the charged amount is only ever the no-fee amount or its unsigned difference with the fee and that is what is minted / "
             "recorded; the four required-fee operands agree on operand roles and side. NOT decided: 'never past the peg by more than 2 "
             "units' (numeric).",
        technique="guard-edge reachability (operator-exact) + operand-role matching across sibling sites",
        ref="6/C05"),
    "C06": dict(
        text="Decides the structural clauses of the slashing check: pool totals are assigned only through the strict booked > delegated "
             "edge (a check can never raise a pool); the new bSei pool is delegated x from_ratio(old bSei, booked) and the stSei pool its "
             "complement (so the post-check sum is the delegated amount by shape); the delegated sum counts only the hub's own delegations "
             "in the staking denom; the recomputed State is what is saved, and CheckSlashing runs it. Token pairing of the withdraw-rate "
             "computation is checked under C01.g. NOT decided: 'within two base units' and multi-batch proportionality (numeric)."
             " Also: no success exit of the recompute function bypasses the booked-vs-delegated comparison except the two designed shortcuts (nothing delegated / nothing booked)."
             " Also: every Ok result of the resync function is the recomputed State (never the stored copy with its stale rates).",
        technique="guard-edge reachability on field assignments + operand-role/complement shape matching",
        ref="6/C06"),
    "C02": dict(
        text="Decides the structural clauses: each of the three bond entry points (specialised by constant propagation) adds the payment "
             "coin's amount to the pool of the right token, preserves the other, and asks the planner to place that same amount; Delegate "
             "pairs plan[i] with validators[i] (same index expression) in the payment denom, validators come only from the registry query, "
             "empty answer is an error; the undelegated claim is the sum of exactly the two products subtracted from the pools and "
             "Undelegate pairs planner output i with the hub's own delegation i; spend-site inventory over all 15 variants (Send only on "
             "withdraw, Delegate only on bond, no funds on any WasmMsg); resync dominates every STATE write of every pricing handler. NOT "
             "decided: booked <= delegated over histories; sum of Delegate amounts = payment (C12 arithmetic)."
             " Also: a Convert hook moves one and the same coin value between the two pools (booked total conserved); every planner entry is turned into a Delegate / Undelegate (no early exit from the emitting loop, no iterator adaptor dropping non-zero entries); the planners' distribution loops cannot be left early, nor their iterators cut, while an amount is still unplaced (the hub discards the reported remainder); a validator is skipped only by comparing its stake with the share its entry is computed from - the arithmetic of the even split itself is not decided (C12).",
        technique="per-variant specialised exploration + ledger-delta shapes + index-expression pairing + dominance on MIR",
        ref="6/C02"),
    "C03": dict(
        text="Decides operand roles only: both State rate methods compute pool / (issued + requested) and 1 when either is zero; at all 12 "
             "places where a pricing operation or the resync stores a recomputed X rate the numerator is the X pool stored in the same write "
             "and the denominator is the X token's queried supply adjusted by exactly this operation's Mint/Burn of X plus the pending X "
             "requests; every minted amount is (coin value) / (rate of the token minted) with the coin value the payment or source amount x "
             "source rate; the payment must have the staking denom, amount > 0, and be the only coin; the State query reports the recomputed "
             "State. NOT decided: floor exactness and numeric equality of rates.",
        technique="operand-role matching on specialised written-value expressions (MIR provenance)",
        ref="6/C03"),
    "C04": dict(
        text="Decides one clause: under bond_type = BondRewards (constant-propagation specialisation, with a positive control) no token Mint is "
             "reachable, the stSei pool grows by the payment on every success path, and the stSei rate is recomputed over unchanged supply "
             "plus pending requests. NOT decided: monotonicity of a quotient across states (relational, numeric) - declined.",
        technique="constant-propagation specialisation + reachability + operand roles",
        ref="6/C04"),
    "C13": dict(
        text="Decides the structural clauses of RemoveValidator: owner-only; the registry entry is removed before the recount and no success "
             "exit avoids the not-empty observation; the amount redistributed is the hub's whole delegation (query_delegation(...).amount.amount, "
             "not can_redelegate); entries pair remaining[i] with plan[i] in the delegation's denom, source is the removed address; "
             "RedelegateProxy then UpdateGlobalIndex to the hub, message-less success only on the can_redelegate < amount edge; the hub's "
             "RedelegateProxy copies src/dst/amount 1:1 per entry (registry-only: C10). NOT decided: sum of redelegations = delegation "
             "(C12 arithmetic); delegated - booked unchanged (run-time)."
             " Also: every success exit of RemoveValidator has removed the registry entry; the message-less success is reachable only when redelegation is impossible (lifted must-pass-through).",
        technique="dominance + guard reachability + index-expression pairing + message-sequence extraction on MIR",
        ref="6/C13"),
    "C09": dict(
        text="Decides the independence half: the cross-contract message graph (every WasmMsg::Execute and smart query, targets resolved "
             "through the configuration cells' identity labels) is built from MIR, and the transitive closure from each of the 29 exit "
             "entry points (hub bond/unbond/convert/withdraw/slashing, every message of both tokens, reward claim and mirroring) contains "
             "no swap/oracle contract, no dispatcher swap/dispatch, no reward swap, and only edges of the allowed table - a new dependency "
             "is reported on every run, which no unit test against mocks can notice. A positive control shows UpdateGlobalIndex does reach "
             "swap and oracle. NOT decided: 'can always exit from every reachable state' (liveness; depends on arithmetic over histories)."
             " Also, a structural necessary condition of the exit half: no division reachable from an exit handler can panic - every divisor is a "
             "non-zero constant, an exchange rate the code keeps non-zero by construction, or a value observed non-zero on every path to the call; "
             "and (C09.e) SignedInt::from_subtraction sets its negative flag only where a < b was observed (a negative zero makes the withdraw path refuse).",
        technique="cross-contract call/query graph closure over MIR-extracted message constructions",
        ref="6/C09"),
    "C19": dict(
        text="Decides the structural clauses: UpdateGlobalIndex emits one reward withdrawal per delegation of the hub, then SwapToRewardDenom, "
             "then DispatchRewards to the configured dispatcher on every path; the two bonded totals are paired with the right State fields; "
             "SetWithdrawAddress accompanies every change of the dispatcher address; wire agreement (variant tag accepted, required fields "
             "present, unknown fields only where ignored) on every cross-contract edge whose payload type differs from the receiver's enum - "
             "read from the derived serde impls in MIR, a compatibility no per-contract mock test exercises; zero-coin transfers in the "
             "delivery transaction (3 genuine dispatcher sites are known findings shared with C17). NOT decided: the end-state accounting "
             "equalities (numeric)."
             " Also: conversions precede the rebalancing swap (shared with C17.i); reward::UpdateGlobalIndex and dispatcher::DispatchRewards have no explicit error exit other than the unauthorised-sender rejection."
             " Also (C19.h): the guards of the hub's UpdateGlobalIndex compare the sender with each designated caller (updater and validators registry).",
        technique="message-sequence extraction + cross-contract wire-schema diff of derived serde impls + guarded-site reachability",
        ref="6/C19"),
}

NA = {
    "C12": "pure arithmetic input/output relation of two integer routines (conservation, bounds, termination) over all vectors; "
           "no clause is visible in code shape, static analysis without execution/solver cannot decide it (DESIGN 6/C12)",
}


def main():
    props = [json.loads(l) for l in open(os.path.join(VERIF, "properties.jsonl"))]
    checks = []
    na = []
    for p in props:
        pid = p["id"]
        if pid in CLAIMS:
            c = dict(CLAIMS[pid])
            prem = PREMISES.get(pid)
            if prem:
                c["text"] += " Shared premises (DESIGN 11.7): this check also evaluates " + "; ".join(
                    "%s (anchored in %s)" % (", ".join(rules), src) for (src, rules, why) in prem) + \
                    " - structural facts its own argument rests on; it reports when one of them fails."
            checks.append({
                "property_id": pid,
                "quick_cmd": "./check %s --tier quick" % pid,
                "thorough_cmd": "./check %s --tier thorough" % pid,
                "evidence_file": "/verif/evidence/%s.json" % pid,
                "replay_cmd_template": "./check --explain {path}",
                "engine": "krpsa",
                "level_claimed": {"category": "other", "text": c["text"], "design_ref": "DESIGN.md section " + c["ref"]},
                "level_note": TB,
                "technique": c["technique"],
            })
        else:
            na.append({"property_id": pid, "reason": NA.get(pid, "check not built yet (work in progress; planned per DESIGN.md section 6)")})
    m = {
        "version": 1,
        "setup_cmd": "cd /verif/driver && CARGO_NET_OFFLINE=true cargo build --release --offline",
        "hooks": {"guard": "krp_verif", "enable": "none needed: static analysis reads the unmodified source (no hooks in /repo)",
                  "baseline_off_cmd": "cd /repo && cargo test --workspace --no-fail-fast --offline",
                  "source_commits": [], "add_only": True},
        "engines": [{"name": "krpsa", "path": "/verif/krpsa", "serves_properties": sorted(CLAIMS),
                     "kind_free_text": "rustc_private MIR fact extractor (driver/) + python rule engine: CFG dominance / pass-edge "
                                       "reachability, reaching-definition value provenance, effect tables, call-graph closure, "
                                       "constant-propagation specialisation, wire-schema comparison"}],
        "checks": checks,
        "not_applicable": na,
        "notes": "All checks are static analyses of /repo's current working tree (facts re-extracted whenever the tree's content hash changes).",
    }
    json.dump(m, open(os.path.join(VERIF, "MANIFEST.json"), "w"), indent=1)
    print("claimed:", sorted(CLAIMS), "n/a:", [x["property_id"] for x in na])


if __name__ == "__main__":
    main()
