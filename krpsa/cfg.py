"""A1: CFG utilities over normal (non-unwind) edges: reachability with removed edges,
dominators, post-dominators."""


class CFG:
    def __init__(self, body, removed=frozenset()):
        self.body = body
        self.removed = removed
        n = len(body.blocks)
        self.n = n
        self.succ = [[] for _ in range(n)]
        self.pred = [[] for _ in range(n)]
        for b in body.blocks:
            if b.cleanup:
                continue
            for s in b.term.succs():
                if s is None or body.blocks[s].cleanup or (b.idx, s) in removed:
                    continue
                if s not in self.succ[b.idx]:
                    self.succ[b.idx].append(s)
                    self.pred[s].append(b.idx)
        self.live = self.reach([0])
        self._dom = None
        self._pdom = None
        self._rpo = None

    def reach(self, starts, removed=frozenset(), stop=frozenset()):
        """blocks reachable from `starts` without traversing edges in `removed`
        (set of (src,dst)) and without leaving blocks in `stop`."""
        seen = set()
        work = list(starts)
        while work:
            b = work.pop()
            if b in seen:
                continue
            seen.add(b)
            if b in stop:
                continue
            for s in self.succ[b]:
                if (b, s) in removed:
                    continue
                if s not in seen:
                    work.append(s)
        return seen

    def reach_back(self, targets, removed=frozenset()):
        seen = set()
        work = list(targets)
        while work:
            b = work.pop()
            if b in seen:
                continue
            seen.add(b)
            for p in self.pred[b]:
                if (p, b) in removed:
                    continue
                if p not in seen:
                    work.append(p)
        return seen

    def rpo(self):
        if self._rpo is None:
            seen = set()
            order = []
            stack = [(0, iter(self.succ[0]))]
            seen.add(0)
            while stack:
                b, it = stack[-1]
                adv = False
                for s in it:
                    if s not in seen:
                        seen.add(s)
                        stack.append((s, iter(self.succ[s])))
                        adv = True
                        break
                if not adv:
                    order.append(b)
                    stack.pop()
            order.reverse()
            self._rpo = order
        return self._rpo

    def dominators(self):
        """dom[b] = set of blocks dominating b (including b); only for live blocks."""
        if self._dom is None:
            order = self.rpo()
            allb = set(order)
            dom = {b: set(allb) for b in order}
            dom[0] = {0}
            changed = True
            while changed:
                changed = False
                for b in order:
                    if b == 0:
                        continue
                    ps = [p for p in self.pred[b] if p in dom]
                    if ps:
                        new = set.intersection(*[dom[p] for p in ps])
                    else:
                        new = set()
                    new = new | {b}
                    if new != dom[b]:
                        dom[b] = new
                        changed = True
            self._dom = dom
        return self._dom

    def dominates(self, a, b):
        d = self.dominators()
        return b in d and a in d[b]

    def exits(self):
        return [b.idx for b in self.body.blocks if b.idx in self.live and b.term.kind == "return"]

    def path(self, src, dst, removed=frozenset()):
        """one witness path (list of blocks) from src to dst, or None"""
        prev = {src: None}
        work = [src]
        while work:
            b = work.pop(0)
            if b == dst:
                out = []
                while b is not None:
                    out.append(b)
                    b = prev[b]
                return out[::-1]
            for s in self.succ[b]:
                if (b, s) in removed or s in prev:
                    continue
                prev[s] = b
                work.append(s)
        return None

    def in_loop(self, b):
        """is block b on a cycle?"""
        for s in self.succ[b]:
            if b in self.reach([s]):
                return True
        return False


def sccs(cfg):
    """strongly connected components (as sets) of the live CFG that contain a cycle"""
    index = {}
    low = {}
    stack = []
    on = set()
    out = []
    counter = [0]
    import sys
    sys.setrecursionlimit(10000)

    def strong(v):
        index[v] = low[v] = counter[0]
        counter[0] += 1
        stack.append(v)
        on.add(v)
        for w in cfg.succ[v]:
            if w not in index:
                strong(w)
                low[v] = min(low[v], low[w])
            elif w in on:
                low[v] = min(low[v], index[w])
        if low[v] == index[v]:
            comp = set()
            while True:
                w = stack.pop()
                on.discard(w)
                comp.add(w)
                if w == v:
                    break
            if len(comp) > 1 or v in cfg.succ[v]:
                out.append(comp)
    for v in sorted(cfg.live):
        if v not in index:
            strong(v)
    return out
