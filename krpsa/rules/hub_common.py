"""Structural discovery of hub handlers (shared by the hub properties)."""
from ..callgraph import explore, site_guarded, storage_effects
from .common import entry, variant_env, stored, arm_handler

HUBCFG = "basset_sei_hub::state::CONFIG"
PARAMS = "basset_sei_hub::state::PARAMETERS"
STATE = "basset_sei_hub::state::STATE"
BATCH = "basset_sei_hub::state::CURRENT_BATCH"
NEWWAIT = "bucket:basset_sei_hub::state::NEW_PREFIX_WAIT_MAP"
OLDWAIT = "bucket:basset_sei_hub::state::OLD_PREFIX_WAIT_MAP"
HISTORY = "prefixed:basset_sei_hub::state::UNBOND_HISTORY_MAP"
TOKENS = {"bsei": stored(HUBCFG, "bsei_token_contract"), "stsei": stored(HUBCFG, "stsei_token_contract")}


def subtree(visits, root):
    out = []
    for v in visits:
        x = v
        while x is not None:
            if x is root:
                out.append(v)
                break
            x = x.parent[0] if x.parent else None
    return out


def receive_handlers(prog, sem):
    """{(hook variant, token): (visits of Receive, receive visit, handler visit)} discovered from
    the facts that must hold at each delegating call site of the Receive arm"""
    ex = entry(prog, "hub")
    vs = explore(sem, ex, variant_env(prog, ex, "Receive"))
    h = arm_handler(sem, vs)
    out = {}
    for v in vs:
        if v.parent is None or v.parent[0] is not h or v.body.kind == "closure":
            continue
        bb = v.parent[1]
        hooks = []
        for hook in ("Unbond", "Convert"):
            def fh(f, resolve, hook=hook):
                if not (f[0] == "variant" and f[2] == hook):
                    return False
                x = sem.w.ident(resolve(f[1]))
                if x.op == "call" and x.info == "cosmwasm_std::from_json" and x.args:
                    l = sem.label(x.args[0])
                    return l is not None and l[0] == "param" and l[4] and l[4][-1] == "msg"
                return False
            if site_guarded(sem, h, bb, fh)[0]:
                hooks.append(hook)
        toks = []
        for tk, lab in TOKENS.items():
            def ft(f, resolve, lab=lab):
                if f[0] == "cmp" and f[1] == "Eq":
                    ls = (sem.label(resolve(f[2])), sem.label(resolve(f[3])))
                    return ("sender",) in ls and lab in ls
                return False
            if site_guarded(sem, h, bb, ft)[0]:
                toks.append(tk)
        if not hooks and not toks:
            # a call every hook passes through that neither writes nor emits anything (a classifier such as
            # `HookOrigin::identify(&caller, config)`) is not a handler
            from ..callgraph import message_effects
            sub = subtree(vs, v)
            if not any(kind in ("write", "update", "remove") for (_v, _bb, kind, _c, _k, _val, _e) in storage_effects(sem, sub)) and \
                    not message_effects(sem, sub):
                continue
        out.setdefault((tuple(hooks), tuple(toks)), []).append(v)
    return vs, h, out


# ----------------------------------------------------------------------------------------
# withdraw path (C01, C06, C08)

def history_readers(sem, visits):
    """paths of functions that read the unbond-history map directly"""
    out = set()
    for v in visits:
        for (bb, kind, cell, key, val, e) in sem.storage_sites(v.be):
            if cell == HISTORY and kind == "read" and bb in v.blocks:
                out.add(v.body.path)
    return out


def history_writers(sem, visits):
    out = set()
    for v in visits:
        for (bb, kind, cell, key, val, e) in sem.storage_sites(v.be):
            if cell == HISTORY and kind == "write" and bb in v.blocks:
                out.add(v.body.path)
    return out


def release_loops(sem, visits):
    """loops that walk the history from State.last_processed_batch + 1:
    [(visit, reader call bb, key expr (function-local), [in-loop call blocks other than the reader])]"""
    w = sem.w
    readers = history_readers(sem, visits)
    out = []
    for v in visits:
        if v.body.kind == "closure":
            continue
        for blk in v.body.calls():
            if blk.idx not in v.blocks:
                continue
            e = v.be.ev_call(blk.idx, blk.term)
            if e.op != "call" or not v.be.cfg.in_loop(blk.idx):
                continue
            if e.info not in readers:
                # a wrapper around the reader (e.g. `fn read_releasable(storage, id, t) -> Option<History>`): the reader call it makes,
                # in this function's terms
                if w.callee_body(e) is None:
                    continue
                from ..expr import find as _find
                cbp = w.callee_body(e).path
                inner = _find(w.expand(e), lambda y: y.op == "call" and y.info in readers and y.site is not None and y.site[0] == cbp)
                if not inner:
                    continue
                e = inner[0]
            key = e.args[1]
            from ..expr import find
            kn = w.norm(v.resolve(key))
            if not find(kn, lambda y: sem.label(y) == stored(STATE, "last_processed_batch")):
                continue
            body_calls = []
            for b2 in v.body.calls():
                if b2.idx in v.blocks and b2.idx != blk.idx and v.be.cfg.in_loop(b2.idx):
                    body_calls.append(b2.idx)
            out.append((v, blk.idx, key, body_calls))
    return out


def release_guard_preds(sem, vis, key, readers):
    """the three continuation conditions of a release loop as fact predicates:
    history entry exists, entry.time <= now - unbonding_period, entry not yet released"""
    w = sem.w
    kid = w.ident(key, expand_ws=False)

    def is_entry(x, resolve=None):
        """x is read(key)!ok (the entry of this iteration)"""
        x = w.ident(x, expand_ws=False)
        for _ in range(4):
            # read(key)?, read(key).ok()?, if let Some(h) = read(key).ok() ...
            if x.op == "proj" and x.args:
                x = w.ident(x.args[0], expand_ws=False)
            elif x.op == "call" and x.info == "std::result::Result::ok" and len(x.args) == 1:
                x = w.ident(x.args[0], expand_ws=False)
            else:
                break
        return x.op == "call" and x.info in readers and w.ident(x.args[1], expand_ws=False) == kid

    def exists(f, resolve):
        return f[0] == "variant" and f[2] == "Ok" and is_entry(f[1])

    def matured(f, resolve):
        if f[0] == "cmp" and f[1] == "Le":
            a = f[2]
            if a.op == "field" and a.info[0] == "time" and is_entry(a.args[0]):
                b = w.norm(resolve(f[3]))
                if b.op == "bin" and b.info == "Sub":
                    return sem.label(b.args[0]) == ("env", "block", "time") and sem.label(b.args[1]) == stored(PARAMS, "unbonding_period")
        return False

    def unreleased(f, resolve):
        return f[0] == "truth" and f[2] is False and f[1].op == "field" and f[1].info[0] == "released" and is_entry(f[1].args[0])

    return {"exists": exists, "time <= now - unbonding_period": matured, "not released": unreleased}


# ----------------------------------------------------------------------------------------
# pricing paths (C02 - C06): structural roles of the values that appear in pricing formulas

def resync_fns(prog, sem):
    """functions that persist the re-synchronised State and return it (today: `slashing`)"""
    out = set()
    for b in prog.fn_bodies(crate="basset_sei_hub"):
        if b.kind == "closure" or "basset::hub::State" not in (b.ret_ty or ""):
            continue
        be = sem.w.be(b)
        if any(cell == STATE and kind == "write" for (bb, kind, cell, key, val, e) in sem.storage_sites(be)):
            out.add(b.path)
    return out


def recompute_fns(prog, sem):
    """functions that compute the re-synchronised State from the delegations without saving it"""
    out = set()
    for b in prog.fn_bodies(crate="basset_sei_hub"):
        if b.kind == "closure" or "basset::hub::State" not in (b.ret_ty or ""):
            continue
        for blk in b.calls():
            if blk.term.callee.path.endswith("query_all_delegations") or "query_all_delegations" in blk.term.callee.path:
                out.add(b.path)
    return out


class Roles:
    def __init__(self, prog, sem):
        self.prog = prog
        self.sem = sem
        self.w = sem.w
        self.resync = resync_fns(prog, sem) | recompute_fns(prog, sem)

    def role(self, e):
        """structural role of a leaf value in a pricing formula, or None"""
        w, sem = self.w, self.sem
        x = w.ident(e, expand_ws=False)
        if x.op == "field":
            b = x.args[0]
            if b.op == "proj":
                b = b.args[0]
            if b.op == "call" and b.info in self.resync:
                return ("state", x.info[0])
            if b.op == "param" and b.info[3].endswith("basset::hub::State"):
                return ("state", x.info[0])
        l = sem.label_nd(e)
        if l is None and x.op == "call" and w.callee_body(x) is not None:
            from ..expr import E
            l = sem.label_nd(E("proj", (x,), "ok"))
        if l is not None:
            if l[0] == "stored":
                short = {PARAMS: "params", BATCH: "batch", STATE: "state_raw", HUBCFG: "config"}.get(l[1])
                if short and len(l[3]) == 1:
                    return (short, l[3][0])
            if l[0] == "query" and l[2] and l[2].endswith("Cw20QueryMsg") and l[3] == "TokenInfo" and l[4] == ("total_supply",):
                for tk, tl in TOKENS.items():
                    if l[1] == tl:
                        return ("supply", tk)
            if l[0] == "param" and l[4][-1:] == ("amount",) and "Receive" not in l[2] and l[4][:1] == ("0",):
                return ("amount",)
            if l[0] == "param" and l[4] == ("0", "amount"):
                return ("amount",)
            if l[0] == "param" and l[4] == ("amount",):
                return ("amount",)
            if l[0] == "info" and l[1] == "funds":
                return ("payment",) + tuple(l[2][-1:]) if len(l) > 2 and l[2] else ("payment",)
            if l[0] == "const":
                return ("const", l[2] if len(l) > 2 else l[1])
        # the single coin selected from info.funds
        if x.op == "field" and x.info[0] in ("amount", "denom"):
            b = w.ident(x.args[0], expand_ws=False)
            if b.op == "call" and b.info.endswith("Iterator::find"):
                src = sem.label(b.args[0])
                if src == ("info", "funds"):
                    return ("payment", x.info[0])
        return None

    def flatten(self, e, op="Add"):
        """operands of a (left/right nested) sum"""
        x = self.w.ident(e, expand_ws=False)
        if x.op == "bin" and x.info == op:
            return self.flatten(x.args[0], op) + self.flatten(x.args[1], op)
        return [x]



def early_exits(sem, vis, member_bb, allowed_fact=None):
    """exit edges of the loop (cycle-containing SCC) around block `member_bb` that can lead to a
    success exit of the function and are neither the iterator's exhaustion edge nor an edge
    carrying `allowed_fact`: [(src, dst, line)]"""
    from ..cfg import sccs
    be = vis.be
    cfg = be.cfg
    loop = None
    for comp in sccs(cfg):
        if member_bb in comp:
            if loop is None or len(comp) < len(loop):
                loop = comp
    if loop is None:
        return None
    oks = {bb for (bb, idx, kind, x) in sem.ret_sites(be) if kind in ("ok", "libcall", "unknown", "call")}
    out = []
    for u in sorted(loop):
        facts = sem.edge_facts(be, u) if vis.body.blocks[u].term.kind == "switch" else {}
        for v in cfg.succ[u]:
            if v in loop:
                continue
            fl = facts.get(v, [])
            if any(f[0] == "variant" and f[2] == "None" and f[1].op == "call" and f[1].info.endswith("Iterator::next") for f in fl):
                continue
            if allowed_fact is not None and any(allowed_fact(f, vis.resolve) for f in fl):
                continue
            # does this exit lead to a success exit?
            r = cfg.reach([v])
            if any(b in r for b in oks):
                out.append((u, v, vis.body.blocks[u].term.line))
    return out
