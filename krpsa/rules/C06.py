"""C06 - slashing recognised exactly, pro rata: structural clauses (DESIGN 6, C06)."""
from ..callgraph import explore, storage_effects, call_sites, site_guarded, always_passes
from ..iters import droppers, true_facts, mk_item, last
from .msgs import collection_repr
from ..expr import show, find, arith_args
from .common import entry, variant_env, stored, where, arm_handler
from .hub_common import resync_fns, recompute_fns, Roles, STATE, PARAMS, BATCH


def run(prog, world, sem, rep):
    rep.rule("C06.a", "downward only: in the function that recomputes the State from the delegations, both pool totals are assigned only "
             "through the true-edge of the strict comparison booked_sum > delegated_sum", 2)
    rep.rule("C06.b", "exact sum by complement: stSei pool := checked_sub(delegated_sum, new bSei pool); bSei pool := delegated_sum x "
             "from_ratio(old bSei pool, booked_sum); booked_sum = old bSei pool + old stSei pool", 3)
    rep.rule("C06.d", "delegated_sum accumulates only delegations whose denom equals Parameters.underlying_coin_denom, of the hub's own delegations", 2)
    rep.rule("C06.f", "the re-synchronised State is persisted as computed (STATE.save of the recomputed value), it - not the stored copy - is what the resync "
             "returns to the pricing handlers on every success path, and CheckSlashing runs it", 3)

    rep.rule("C06.g", "recognition is unconditional: every success exit of the recompute function lies behind the comparison of the booked total with "
             "the delegated total (no shortcut returns the stored State unchecked)", 1)

    rc = recompute_fns(prog, sem)
    rs = resync_fns(prog, sem)
    if len(rc) != 1 or len(rs) != 1:
        rep.ob("C06.a", "recompute / resync functions", False, "anchor-lost: recompute fns %s, resync fns %s" % (sorted(rc), sorted(rs)))
        return
    body = prog.body(list(rc)[0])
    be = world.be(body)
    roles = Roles(prog, sem)
    rvs = explore(sem, body)          # the recompute function and everything it calls (methods it delegates to, closures)
    root = rvs[0]
    POOLS = ("total_bond_bsei_amount", "total_bond_stsei_amount")

    def lab(x):
        return sem.label(x)

    def is_booked_sum(x):
        # booked = old bSei pool + old stSei pool (possibly through a pure helper such as State::total_bonded)
        x = world.ident(x)
        if x.op == "bin" and x.info == "Add":
            return {lab(a) for a in x.args} == {stored(STATE, "total_bond_bsei_amount"), stored(STATE, "total_bond_stsei_amount")}
        return False

    # the comparison delegated < booked, wherever it is made
    delegated = None
    cmp_sites = []

    def cmp_fact(f, resolve):
        return f[0] == "cmp" and f[1] == "Lt" and is_booked_sum(resolve(f[3]))
    for v in rvs:
        for blk in v.body.blocks:
            if blk.term.kind == "switch" and blk.idx in v.blocks:
                for succ, fl in sem.edge_facts(v.be, blk.idx).items():
                    for f in fl:
                        if cmp_fact(f, v.resolve):
                            cmp_sites.append((v, blk.idx, succ))
                            delegated = world.ident(v.resolve(f[2]), expand_ws=False)
    if not cmp_sites:
        rep.ob("C06.a", "comparison", False, "anchor-lost: no comparison delegated_sum < booked_sum (booked = stored bSei pool + stored stSei pool) in %s or its callees" % body.path, where(body))
        return
    # the State handed back: its pool fields are the stored values or the recomputed ones
    oks = world._ok_alts(world.ret_expr(body), "ok", 0, True)
    alts = {f: [] for f in POOLS}
    for o in oks:
        for f in POOLS:
            fv = sem.field_of(o, f)
            for a in (fv.args if fv.op == "phi" else (fv,)):
                if a not in alts[f]:
                    alts[f].append(a)
    new_val = {}
    for f in POOLS:
        changed = [a for a in alts[f] if lab(a) != stored(STATE, f)]
        bad = []
        for a in changed:
            site = a.site
            vis = [v for v in rvs if site is not None and v.body.path == site[0]]
            if not vis:
                bad.append("cannot locate where %s is computed" % show(a, 3))
                continue
            g, why = site_guarded(sem, vis[0], site[1], cmp_fact)
            if not g:
                bad.append("%s computed at line %d of %s without observing booked_sum > delegated_sum (%s)" % (f, vis[0].body.blocks[site[1]].term.line, vis[0].body.path, why))
        if len(changed) == 1:
            new_val[f] = changed[0]
        rep.ob("C06.a", "%s lowered only when booked > delegated" % f, bool(changed) and not bad,
               "; ".join(bad) if bad else ("anchor-lost: %s is never recomputed" % f if not changed else "recomputed value behind delegated_sum < booked_sum"),
               where(body), key="C06.a | %s" % f)
    # ---- C06.g no success exit around the comparison (two designed shortcuts: nothing delegated at all, nothing booked at all)
    def shortcut(f, resolve):
        if f[0] == "truth" and f[2] is True and f[1].op == "call" and f[1].args:
            nm, a0 = f[1].info, world.ident(resolve(f[1].args[0]), expand_ws=False)
            if nm.endswith("::is_empty") and find(world.norm(a0, 0, False), lambda y: y.op == "call" and y.info.endswith("query_all_delegations")):
                return True
            if nm.endswith("::is_zero") and is_booked_sum(a0):
                return True
        return False
    cv, cbb, _ = cmp_sites[0]
    okg, dg = always_passes(sem, cv, cbb, shortcut, root)
    rep.ob("C06.g", "no success exit of the recompute function bypasses the booked-vs-delegated comparison", okg,
           dg + (": a slash in that state goes unrecognised" if not okg else ""), where(body))
    # ---- C06.b shapes
    dn = world.norm(delegated, 0, False) if delegated is not None else None
    bv = world.norm(new_val.get("total_bond_bsei_amount"), 0, False) if new_val.get("total_bond_bsei_amount") is not None else None
    sv = world.norm(new_val.get("total_bond_stsei_amount"), 0, False) if new_val.get("total_bond_stsei_amount") is not None else None
    okb = False
    det = show(bv, 5) if bv is not None else "no recomputed bSei pool"
    if bv is not None and bv.op == "bin" and bv.info == "Mul":
        for x, y in ((bv.args[0], bv.args[1]), (bv.args[1], bv.args[0])):
            if x == dn and y.op == "call" and y.info.endswith("Decimal::from_ratio"):
                okb = lab(y.args[0]) == stored(STATE, "total_bond_bsei_amount") and is_booked_sum(y.args[1])
    rep.ob("C06.b", "bSei pool := delegated x old bSei / booked", okb, det, where(body))
    oks2 = sv is not None and arith_args(sv, "Sub") is not None and arith_args(sv, "Sub")[0] == dn and arith_args(sv, "Sub")[1] == bv
    rep.ob("C06.b", "stSei pool := delegated - new bSei pool", bool(oks2), show(sv, 5) if sv is not None else "no recomputed stSei pool", where(body))
    rep.ob("C06.b", "comparison uses booked = bSei pool + stSei pool as loaded", bool(cmp_sites), "%d guarding edge(s)" % len(cmp_sites), where(body))
    # ---- C06.d the delegated sum: an accumulation over the hub's own delegations of the staking denom only
    okd = False
    det = "anchor-lost: delegated sum is not an accumulation"
    src_ok = False

    def denom_fact(f, resolve):
        if f[0] == "cmp" and f[1] == "Eq":
            ls = [lab(resolve(f[2])), lab(resolve(f[3]))]
            xs = [world.ident(resolve(f[2]), expand_ws=False), world.ident(resolve(f[3]), expand_ws=False)]
            return stored(PARAMS, "underlying_coin_denom") in ls and any(x.op == "field" and x.info[0] == "denom" for x in xs)
        return False
    if delegated is not None:
        dsum = world.ident(delegated, expand_ws=False)
        if dsum.op == "call" and last(dsum.info) == "sum" and dsum.args:
            # iterator form: delegations.iter().filter(|d| d.amount.denom == denom).map(|d| d.amount.amount).sum()
            src = dsum.args[0]
            drs = droppers(world, src)
            filt = [dr for dr in drs if dr[0] == "filter" and len(dr[1].args) > 1 and dr[1].args[1].op == "closure"]
            okf = False
            for (nm, c) in filt:
                pb = prog.bodies.get(c.args[1].info)
                clo = c.args[1]
                if pb is None:
                    continue
                it = mk_item(world, c.args[0])

                def res(x, pb=pb, clo=clo, it=it):
                    return root.resolve(world.subst_params(x, pb, [None, it], upvars=list(clo.args)))
                okf = okf or any(denom_fact(f, res) for f in true_facts(sem, pb))
            others = [dr for dr in drs if dr not in filt]
            cr = collection_repr(world, src)
            crn = world.norm(cr, 0, False) if cr is not None else None
            amt_ok = crn is not None and crn.op == "field" and crn.info[0] == "amount" and crn.args[0].op == "field" and crn.args[0].info[0] == "amount"
            okd = okf and not others and amt_ok
            det = "sum over a filter on delegation.amount.denom == Parameters.underlying_coin_denom: %s; summed value is delegation.amount.amount: %s; other droppers %s" % (
                okf, amt_ok, [d0[0] for d0 in others])
            srcs = find(world.norm(src, 0, False), lambda y: y.op == "call" and y.info.endswith("query_all_delegations"))
            src_ok = any(sem.label(s0.args[1]) == ("self",) for s0 in srcs)
        else:
            adds = find(dsum, lambda y: y.op == "bin" and y.info == "Add" and y.site and any(z.op == "rec" for z in y.args))
            for a in adds:
                vis = [v for v in rvs if v.body.path == a.site[0]]
                if not vis:
                    continue
                g, why = site_guarded(sem, vis[0], a.site[1], denom_fact)
                okd = g
                det = "accumulation behind delegation.amount.denom == Parameters.underlying_coin_denom" if okd else "a delegation of any denom is added to the delegated sum"
                srcs = find(world.norm(a, 0, False), lambda y: y.op == "call" and y.info.endswith("query_all_delegations"))
                src_ok = any(sem.label(s0.args[1]) == ("self",) for s0 in srcs)
    rep.ob("C06.d", "delegated sum filters by the staking denom", okd, det, where(body))
    rep.ob("C06.d", "delegated sum is over the hub's own delegations", src_ok, "query_all_delegations(self): %s" % src_ok, where(body))
    # ---- C06.f persistence
    rbody = prog.body(list(rs)[0])
    rbe = world.be(rbody)
    okp = False
    det = "no STATE save in %s" % rbody.path
    for (bb, kind, cell, key, val, e) in sem.storage_sites(rbe):
        if cell == STATE and kind == "write":
            v = world.ident(val, expand_ws=False)
            base = v.args[0] if v.op == "proj" else v
            okp = base.op == "call" and base.info in rc
            det = "saved value %s" % show(v, 3)
    rep.ob("C06.f", "resync saves exactly the recomputed State", okp, det, where(rbody))
    # what the pricing handlers work with: every Ok result of the resync is the recomputed State (never the stored copy, whose
    # exchange rates are those of the last write)
    rets = [world.ident(x, expand_ws=False) for x in (world._ok_alts(world.ret_expr(rbody), "ok", 0, False) or [])]
    badr = []
    for x in rets:
        base = x.args[0] if x.op == "proj" else x
        if not (base.op == "call" and base.info in rc):
            badr.append(show(x, 3))
    rep.ob("C06.f", "resync returns the recomputed State on every success path", bool(rets) and not badr,
           "the resync can hand %s to the pricing handlers instead of the recomputed State (stale exchange rates price the operation)" % badr if badr or not rets
           else "every Ok result is the value of the recompute function", where(rbody))
    ex = entry(prog, "hub")
    vs = explore(sem, ex, variant_env(prog, ex, "CheckSlashing"))
    called = any(v.body.path in rs for v in vs)
    rep.ob("C06.f", "CheckSlashing runs the resync", called, "resync reachable from CheckSlashing: %s" % called, where(ex))
