"""C18 - both tokens conserve supply; only the hub mints and burns (DESIGN 6, C18)."""
import os
import re

from ..authz import GuardAnalysis
from ..callgraph import site_guarded, explore, storage_effects, message_effects, call_sites
from ..expr import show, find, DEFAULT, E
from ..ledger import ledger_entries, classify, stale_reads
from .common import entry, msg_enum, variant_env, stored, where, arm_handler
from .C10 import mk_pass, BSHUB, STHUB, TOKINFO
from .msgs import wasm_execute

BAL = "cw20_legacy::state::BALANCES"
ALW = "cw20_legacy::state::ALLOWANCES"
LEDGER = {BAL: [], TOKINFO: ["total_supply"]}

PINS = {  # external crates whose bodies are trusted by name: (name, version) -> checksum
    ("cw20-base", "0.16.0"): "61d826fa1084d026d0abdb54faa5956972efa3a9053473bfcefb5388960aab69",
    ("cw20", "0.16.0"): "a45a8794a5dd33b66af34caee52a7beceb690856adcc1682b6e3db88b2cdee62",
}


def msgf(l):
    return l[4] if l is not None and l[0] == "param" else (l if l is None else l[:1])


# variant -> (set of (sign, key), supply sign); keys: 'sender' or message field name
EXPECT = {
    "Transfer": ({(-1, "sender"), (1, "recipient")}, 0),
    "Send": ({(-1, "sender"), (1, "contract")}, 0),
    "TransferFrom": ({(-1, "owner"), (1, "recipient")}, 0),
    "SendFrom": ({(-1, "owner"), (1, "contract")}, 0),
    "Burn": ({(-1, "sender")}, -1),
    "BurnFrom": ({(-1, "owner")}, -1),
    "Mint": ({(1, "recipient")}, 1),
    "IncreaseAllowance": (set(), 0),
    "DecreaseAllowance": (set(), 0),
}


def key_name(l):
    if l == ("sender",):
        return "sender"
    if l is not None and l[0] == "param" and l[4]:
        return l[4][0]
    return str(l)


def run(prog, world, sem, rep):
    rep.rule("C18.a", "ledger conservation by shape: for every cw20-legacy (bSei) message variant the balance writes are deltas on the "
             "expected accounts whose signed sum equals the total_supply delta with the same amount; instantiate credits initial "
             "balances additively and reports their sum as supply (no absolute overwrite of a possibly existing balance)", 12)
    rep.rule("C18.g", "read-modify-write discipline of the bSei ledger: no balance / supply value is saved that was computed from a load which "
             "another write to the same map may have made stale (keys can alias: sender == recipient)", 9)
    rep.rule("C18.b", "only the hub mints and burns: bSei Mint behind sender == TokenInfo.mint.minter, bSei Burn and stSei Burn behind "
             "sender == hub cell", 3)
    rep.rule("C18.d", "allowance-based operations deduct the allowance first (dominating every ledger write), for the same owner / "
             "info.sender / amount as the ledger delta; the deduction fails on expiry and subtracts with checked_sub", 8)
    rep.rule("C18.e", "stSei Burn, stSei BurnFrom and bSei BurnFrom emit CheckSlashing to the stored hub address on every success path", 3)
    rep.rule("C18.f", "the external crates trusted by name (cw20-base / cw20 0.16.0, ledger of stSei) are pinned in Cargo.lock", 2)

    ex = entry(prog, "bsei")
    adt_path, adt = msg_enum(prog, ex)
    per_variant = {}
    for v in [x["name"] for x in adt["variants"]]:
        vs = explore(sem, ex, variant_env(prog, ex, v))
        eff = storage_effects(sem, vs)
        per_variant[v] = (vs, eff)
        ents = [x for x in ledger_entries(sem, eff, LEDGER) if x["what"][0] != "preserved"]
        bad = []
        deltas = set()
        supply = 0
        amounts = set()
        for x in ents:
            w0 = x["what"]
            if w0[0] == "absolute":
                bad.append("absolute write of %s%s at %s" % (x["cell"].split("::")[-1], "." + x["field"] if x["field"] else "", where(x["vis"].body, x["bb"])))
                continue
            amounts.add(sem.label(w0[2]))
            if x["cell"] == BAL:
                deltas.add((w0[1], key_name(x["key"])))
            else:
                supply += w0[1]
        exp = EXPECT.get(v)
        if exp is None:
            # a variant the property does not list: held to conservation (sum of balance deltas = supply delta, no absolute write) only
            rep.note("bsei::%s has no tabled ledger signature: conservation only" % v)
        else:
            if deltas != exp[0]:
                bad.append("balance deltas %s, expected %s" % (sorted(deltas), sorted(exp[0])))
            if supply != exp[1]:
                bad.append("total_supply delta %+d, expected %+d" % (supply, exp[1]))
        if sum(s for s, _ in deltas) != supply:
            bad.append("sum of balance deltas %+d differs from supply delta %+d" % (sum(s for s, _ in deltas), supply))
        if len(amounts) > 1 or (amounts and not all(a is not None and a[0] == "param" and a[4] == ("amount",) for a in amounts)):
            bad.append("ledger deltas do not all use the message amount: %s" % sorted(map(str, amounts)))
        st = stale_reads(sem, eff, LEDGER)
        rep.ob("C18.g", "bsei::%s ledger updates are atomic read-modify-writes" % v, not st,
               "a ledger value saved at %s was computed from a load at line %d although another write to the same map happens in between (line %d): if the keys coincide the second save overwrites the first with a stale value" % (
                   where(st[0][0].body, st[0][1]), st[0][0].body.blocks[st[0][2]].term.line, st[0][0].body.blocks[st[0][3]].term.line) if st else
               "every saved ledger value is computed from a fresh read", where(ex), key="C18.g | bsei::%s" % v)
        rep.ob("C18.a", "bsei::%s ledger signature" % v, not bad, "; ".join(bad) if bad else
               "deltas %s supply %+d amount msg.amount" % (sorted(deltas), supply), where(ex), key="C18.a | bsei::%s" % v)

    # instantiate: additive initial balances, supply = their sum
    ins = entry(prog, "bsei", "instantiate")
    vs = explore(sem, ins)
    eff = storage_effects(sem, vs)
    ents = ledger_entries(sem, eff, LEDGER)
    bal_w = [x for x in ents if x["cell"] == BAL]
    sup_w = [x for x in ents if x["cell"] == TOKINFO]
    ok_sup = len(sup_w) == 1 and sup_w[0]["what"][0] == "absolute"
    acc = world.ident(sup_w[0]["what"][1]) if ok_sup else None
    rep.ob("C18.a", "instantiate writes total_supply once", ok_sup, "total_supply writers in instantiate: %d" % len(sup_w), where(ins))
    if not bal_w:
        rep.ob("C18.a", "instantiate credits initial balances", False, "anchor-lost: no BALANCES write reachable from instantiate", where(ins))
    for x in bal_w:
        w0 = x["what"]
        body = x["vis"].body
        in_loop = x["vis"].be.cfg.in_loop(x["bb"])
        if w0[0] != "delta" or w0[1] != 1:
            rep.ob("C18.a", "instantiate credits initial balances additively", False,
                   "initial balance is stored with an absolute write%s: a repeated address in initial_balances overwrites the earlier "
                   "amount while total_supply still accumulates both (sum of balances != total_supply)" % (" inside a loop" if in_loop else ""),
                   where(body, x["bb"]), key="C18.a | instantiate | absolute initial balance write")
            continue
        # the supply accumulator must add the same amount
        adds = [a for a in find(acc, lambda y: y.op == "bin" and y.info == "Add")] if acc is not None else []
        if not adds and acc is not None:
            # fold form: accounts.iter().try_fold(zero, |minted, row| { credit(row); Ok(minted + row.amount) })
            fc = acc.args[0] if acc.op == "proj" else acc
            if fc.op == "call" and fc.info.rsplit("::", 1)[-1] in ("try_fold", "fold") and len(fc.args) == 3 and fc.args[2].op == "closure":
                cb = prog.bodies.get(fc.args[2].info)
                if cb is not None:
                    from ..iters import mk_item
                    r0 = world.subst_params(world.ret_expr(cb), cb, [None, None, mk_item(world, fc.args[0])], upvars=list(fc.args[2].args))
                    adds = [a for a in find(r0, lambda y: y.op == "bin" and y.info == "Add")]
        same = any(world.ident(a.args[1]) == w0[2] or world.ident(a.args[0]) == w0[2] for a in adds)
        rep.ob("C18.a", "instantiate credits initial balances additively", same,
               "balance += %s and the supply accumulator adds the same amount" % show(w0[2], 3) if same else
               "the amount credited (%s) is not what the supply accumulator adds (%s)" % (show(w0[2], 3), show(acc, 5)), where(body, x["bb"]))
        # credit and accumulation are in the same loop iteration: no way around the accumulation after a credit
        site = None
        for a in adds:
            if a.site and a.site[0] == body.path:
                site = a.site[1]
        if site is not None:
            be = x["vis"].be
            after = be.cfg.reach(be.cfg.succ[x["bb"]], stop={site})
            exits = set(be.cfg.exits())
            skip = (x["bb"] in after) or any(b in exits for b in after if b != site and _is_ok_exit(sem, be, b))
            rep.ob("C18.a", "credit and supply accumulation are paired", not skip,
                   "after crediting a balance the loop can continue or return Ok without adding to the supply" if skip else
                   "every path from the credit to the next iteration / Ok exit passes the supply accumulation", where(body, x["bb"]))
        else:
            rep.ob("C18.a", "credit and supply accumulation are paired", False, "anchor-lost: accumulation site not in %s" % body.path, where(body, x["bb"]))

    # ---------------------------------------------------------------- C18.b
    for c, v, row in (("bsei", "Mint", [stored(TOKINFO, "mint", "minter")]), ("bsei", "Burn", [stored(BSHUB)]), ("stsei", "Burn", [stored(STHUB)])):
        e2 = entry(prog, c)
        seen = set()
        wit = GuardAnalysis(sem, mk_pass(sem, row, seen)).unguarded(e2, variant_env(prog, e2, v))
        rep.ob("C18.b", "%s::%s hub-only" % (c, v), not wit, "unguarded success: %s" % (wit[:1],) if wit else "guarded by %s" % [str(r) for r in row], where(e2))

    # ---------------------------------------------------------------- C18.d
    for v in ("TransferFrom", "BurnFrom", "SendFrom"):
        vs, eff = per_variant[v]
        da = call_sites(sem, vs, lambda k: k == "cw20_legacy::allowances::deduct_allowance")
        if len(da) != 1:
            rep.ob("C18.d", "bsei::%s deducts allowance" % v, False, "expected exactly one reachable call of deduct_allowance, found %d" % len(da), where(ex))
            continue
        dvis, dbb, de = da[0]
        owner_l, spender_l, amount_l = sem.label(de.args[2]), sem.label(de.args[3]), sem.label(de.args[5])
        ok = key_name(owner_l) == "owner" and spender_l == ("sender",) and amount_l is not None and amount_l[0] == "param" and amount_l[4] == ("amount",)
        rep.ob("C18.d", "bsei::%s allowance arguments" % v, ok, "deduct_allowance(owner=%s, spender=%s, amount=%s)" % (key_name(owner_l), spender_l, msgf(amount_l)),
               where(dvis.body, dbb))
        # the `?` on the deduction dominates every ledger write of the handler
        be = dvis.be
        cont = None
        for blk in dvis.body.blocks:
            if blk.term.kind == "switch" and blk.idx in be.cfg.live:
                for succ, fl in sem.edge_facts(be, blk.idx).items():
                    for f in fl:
                        if f[0] == "variant" and f[2] == "Ok" and f[1].op == "call" and f[1].info == "cw20_legacy::allowances::deduct_allowance":
                            cont = (blk.idx, succ)
        bad = []
        n = 0
        for (vis, bb, kind, cell, key, val, e) in eff:
            if not (cell in LEDGER and kind in ("write", "update", "remove")):
                continue
            n += 1
            # the write, or the call of the helper that performs it, as seen from the function that deducts the allowance
            lv, lbb = vis, bb
            while lv is not dvis and lv.parent is not None:
                lv, lbb = lv.parent
            if lv is not dvis:
                bad.append("ledger write not under the function that deducts the allowance: %s" % where(vis.body, bb))
            elif cont is None or lbb in be.cfg.reach([0], removed={cont}):
                bad.append(where(vis.body, bb))
        rep.ob("C18.d", "bsei::%s allowance deducted before any ledger write" % v, n > 0 and not bad,
               "ledger writes reachable without a successful allowance deduction: %s" % bad if bad else "%d ledger writes all behind the deduction's `?`" % n,
               where(dvis.body, dbb))
    # inside deduct_allowance
    da_body = prog.body("cw20_legacy::allowances::deduct_allowance")
    if da_body is None:
        rep.ob("C18.d", "deduct_allowance body", False, "anchor-lost: cw20_legacy::allowances::deduct_allowance not found")
    else:
        dvs = explore(sem, da_body)
        deff = [x for x in storage_effects(sem, dvs) if x[3] == ALW and x[2] in ("write", "update")]
        ok = len(deff) == 1
        detail = "writers of ALLOWANCES in deduct_allowance: %d" % len(deff)
        if ok:
            vis, bb, kind, cell, key, val, e = deff[0]
            wv = sem.written_value(kind, cell, val)
            a = classify(sem, cell, _unsome(sem, sem.field_of(wv, "allowance")), ("allowance",)) if wv is not None else ("absolute", None)
            # key = (owner, spender) parameters
            k = world.ident(key)
            kl = [sem.label(x) for x in k.args] if k.op == "tuple" else []
            names = [l[2] if l and l[0] == "param" else None for l in kl]
            ok = a[0] == "delta" and a[1] == -1 and names == ["owner", "spender"] and sem.label(a[2]) is not None and sem.label(a[2])[2] == "amount"
            detail = "allowance %s keyed by %s" % (a[:2], names)
        rep.ob("C18.d", "deduct_allowance subtracts amount from (owner, spender)", ok, detail, where(da_body))
        # expiry: the closure's Ok exit only when is_expired was observed false
        exp_ok = False
        for v2 in dvs:
            if v2.body.kind != "closure":
                continue
            be = v2.be
            pe = set()
            for blk in v2.body.blocks:
                if blk.term.kind == "switch" and blk.idx in be.cfg.live:
                    for succ, fl in sem.edge_facts(be, blk.idx).items():
                        for f in fl:
                            if f[0] == "truth" and f[2] is False and f[1].op == "call" and f[1].info.endswith("Expiration::is_expired"):
                                pe.add((blk.idx, succ))
            reach = be.cfg.reach([0], removed=pe)
            oks = [bb for (bb, idx, kind, x) in sem.ret_sites(be) if kind == "ok"]
            if oks and pe and not any(b in reach for b in oks):
                exp_ok = True
        if not exp_ok:
            # load + modify + save form: the save itself lies behind is_expired == false
            def not_expired(f, resolve):
                return f[0] == "truth" and f[2] is False and f[1].op == "call" and f[1].info.endswith("Expiration::is_expired")
            # ... and so does every Ok result of the function itself (an arm that returns Ok without the test - e.g. "exactly the
            # remaining amount: remove the entry" - lets an expired allowance be spent)
            root_v = [v2 for v2 in dvs if v2.parent is None][0]
            oks_f = [bb2 for (bb2, idx2, kind2, x2) in sem.ret_sites(root_v.be) if kind2 == "ok" and bb2 in root_v.blocks]
            saves = [x for x in deff if x[2] == "write"]
            if saves and all(site_guarded(sem, x[0], x[1], not_expired)[0] for x in saves) and \
                    oks_f and all(site_guarded(sem, root_v, bb2, not_expired)[0] for bb2 in oks_f):
                exp_ok = True
        rep.ob("C18.d", "deduct_allowance fails on an expired allowance", exp_ok,
               "Ok result only behind is_expired == false" if exp_ok else "the allowance update can succeed without checking expiry", where(da_body))

    # ---------------------------------------------------------------- C18.h
    rep.rule("C18.h", "an allowance keeps its expiry unless the owner's message sets one: the `expires` stored by IncreaseAllowance / DecreaseAllowance "
             "is the message's Some(expiry) or the stored entry's own expiry (the type default only when no entry was stored) - never a default "
             "substituted for an omitted message field, which would revive a lapsed allowance", 2)

    def alw_read(x, depth=0):
        """x is the entry read from ALLOWANCES (through unwrap / ? / unwrap_or_default of the read)"""
        x0 = x
        for _ in range(6):
            if x0.op == "proj" and x0.args:
                x0 = x0.args[0]
            elif x0.op == "call" and x0.info.rsplit("::", 1)[-1] in ("unwrap_or_default", "unwrap", "expect", "clone") and x0.args:
                x0 = x0.args[0]
            else:
                break
        if x0.op == "call":
            so = sem.storage_op(x0)
            if so and so[0] == "read" and so[1] == ALW:
                return True
        l = sem.label(x0)
        return bool(l) and l[0] == "stored" and l[1] == ALW

    def expiry_alts(x, resolve, depth=0):
        """[(ok, text)] for the alternatives of a stored expiry value (raw, un-normalised expression)"""
        if depth > 8:
            return [(False, show(x, 3))]
        if x.op == "phi":
            return [r for a in x.args for r in expiry_alts(a, resolve, depth + 1)]
        if x.op == "field" and x.info[0] == "expires" and x.args:
            return [(alw_read(x.args[0]) or alw_read(resolve(x.args[0])), "stored.expires" if alw_read(x.args[0]) else show(x, 3))]
        if x.op == "proj" and x.info == "some" and x.args:
            l = sem.label(resolve(x.args[0]))
            return [(bool(l) and l[0] == "param" and l[4] and l[4][-1] == "expires", "message expires" if l else show(x, 3))]
        if x.op == "call" and x.args:
            nm = x.info.rsplit("::", 1)[-1]
            if nm == "unwrap_or" and len(x.args) == 2:
                return expiry_alts(E("proj", (x.args[0],), "some"), resolve, depth + 1) + expiry_alts(x.args[1], resolve, depth + 1)
            if nm in ("clone", "into", "from") and len(x.args) == 1:
                return expiry_alts(x.args[0], resolve, depth + 1)
            if nm in ("unwrap_or_default", "unwrap_or_else"):
                return [(False, "%s of %s (an omitted message field becomes the type default, i.e. `never expires`)" % (nm, show(x.args[0], 3)))]
        if x.op in ("param", "upvar"):
            r = resolve(x)
            if r is not x:
                return expiry_alts(r, resolve, depth + 1)
        return [(False, show(x, 4))]

    for v in ("IncreaseAllowance", "DecreaseAllowance"):
        vs, eff = per_variant.get(v, ([], []))
        ws = [x for x in eff if x[3] == ALW and x[2] in ("write", "update")]
        if not ws:
            rep.ob("C18.h", "bsei::%s expiry" % v, False, "anchor-lost: no write of the allowance map under %s" % v, where(ex))
            continue
        bad = []
        for (vis, bb, kind, cell, key, val, e) in ws:
            wv = sem.written_value(kind, cell, val)
            if wv is not None and wv.op != "adt":
                wv = world.ident(vis.resolve(wv), expand_ws=False)
            if wv is None or wv.op != "adt" or "expires" not in wv.info[2]:
                bad.append("stored value not taken apart: %s" % show(wv, 3))
                continue
            xv = wv.args[list(wv.info[2]).index("expires")]
            for ok_, txt in expiry_alts(xv, vis.resolve):
                if not ok_:
                    bad.append(txt)
        rep.ob("C18.h", "bsei::%s expiry" % v, not bad, "stored expiry can be %s" % "; ".join(sorted(set(bad))) if bad else
               "stored expiry is the message's Some(..) or the entry's own", where(ws[0][0].body, ws[0][1]), key="C18.h | %s" % v)

    # ---------------------------------------------------------------- C18.e
    for c, v, cell in (("stsei", "Burn", STHUB), ("stsei", "BurnFrom", STHUB), ("bsei", "BurnFrom", BSHUB)):
        e2 = entry(prog, c)
        vs = explore(sem, e2, variant_env(prog, e2, v))
        handler = arm_handler(sem, vs)
        ok = False
        detail = "anchor-lost: handler not found"
        if handler is not None:
            from .msgs import response_sequences
            oks = [x for (bb, idx, kind, x) in sem.ret_sites(handler.be) if kind == "ok" and bb in handler.blocks]
            ok = bool(oks)
            n_seq = 0
            for x in oks:
                rx = handler.resolve(x)
                for l in [0]:
                    for s in response_sequences(world, rx):
                        n_seq += 1
                        hit = False
                        for el in s:
                            for m in find(world.norm(el), lambda y: y.op == "adt" and y.info[0].endswith("WasmMsg") and y.info[1] == "Execute"):
                                if _is_check_slashing(world, sem, m, cell):
                                    hit = True
                        if not hit:
                            ok = False
            detail = "every success path (%d message sequence(s)) carries CheckSlashing to the hub cell" % n_seq if ok else \
                "a success path of %s emits no CheckSlashing message to %s" % (handler.body.path, cell)
        rep.ob("C18.e", "%s::%s refreshes hub rates" % (c, v), ok, detail, where(handler.body) if handler else where(e2))

    # ---------------------------------------------------------------- C18.f
    lock = os.path.join(getattr(rep, "repo", "/repo"), "Cargo.lock")
    txt = open(lock).read() if os.path.exists(lock) else ""
    for (name, ver), cks in PINS.items():
        m = re.search(r'name = "%s"\nversion = "%s"\nsource = "[^"]*"\nchecksum = "([0-9a-f]+)"' % (re.escape(name), re.escape(ver)), txt)
        rep.ob("C18.f", "%s %s pinned" % (name, ver), bool(m) and m.group(1) == cks,
               "Cargo.lock pins %s %s with the expected checksum" % (name, ver) if m and m.group(1) == cks else
               "Cargo.lock no longer pins %s %s with checksum %s: the trusted external ledger changed" % (name, ver, cks), lock)
    # the stSei token must actually be built on that crate's handlers
    st = entry(prog, "stsei")
    n_ext = 0
    for vv in explore(sem, st):
        for blk in vv.body.calls():
            if blk.term.callee.krate == "cw20_base":
                n_ext += 1
    rep.note("stSei delegates to %d cw20_base call sites" % n_ext)


def _unsome(sem, e):
    return e


def _is_ok_exit(sem, be, b):
    for (bb, idx, kind, x) in sem.ret_sites(be):
        if kind == "ok" and bb == b:
            return True
    return False


def _is_check_slashing(world, sem, m, cell):
    r = wasm_execute(world, sem, m)
    if r is None:
        return False
    tl, payload, funds, caddr = r
    return payload is not None and payload.op == "adt" and payload.info[1] == "CheckSlashing" and tl == stored(cell)
