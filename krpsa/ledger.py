"""A10: ledger-delta summaries.  A storage write to a ledger cell is summarised as a signed
delta (old value +/- amount) or an absolute assignment, read off the shape of the written
value (Map::update closures, load / modify / save sequences)."""
from .expr import E, DEFAULT, show


def is_old(sem, x, cell, fields=()):
    """x is the previously stored value of `cell` (field path `fields`), possibly defaulted"""
    w = sem.w
    l0 = sem.label(x)
    if l0 is not None and l0[0] == "stored" and l0[1] == cell and tuple(l0[3]) == tuple(fields):
        return True  # (covers the result of a save-and-return function such as the hub's resync)
    i = w.ident(x)
    xs = i.args if i.op == "phi" else (i,)
    saw = False
    for a in xs:
        if a == DEFAULT:
            continue
        lab = sem.label(a)
        if lab is not None and lab[0] == "const" and lab[1] == "lib" and lab[2].endswith("::zero"):
            continue  # explicit zero default of a missing entry
        if lab is not None and lab[0] == "stored" and lab[1] == cell and tuple(lab[3]) == tuple(fields):
            saw = True
            continue
        return False
    return saw


def classify(sem, cell, v, fields=()):
    """('preserved',) | ('delta', +1|-1, amount expr) | ('absolute', expr)"""
    w = sem.w
    if is_old(sem, v, cell, fields):
        return ("preserved",)
    v0 = w.ident(v, expand_ws=False)
    v = w.ident(v)
    if is_old(sem, v, cell, fields):
        return ("preserved",)
    # (deltas are read off the unexpanded shape first: `resync()?.pool + x` is a delta on the stored pool)
    for x in (v0, v):
        r = _delta(sem, cell, x, fields)
        if r is not None:
            return r
    return ("absolute", v)


def _delta(sem, cell, x, fields):
    w = sem.w
    v = x
    if x.op == "call" and x.info in ("std::result::Result::map_err",):
        x = w.ident(x.args[0])
    if x.op == "call" and x.info in ("cosmwasm_std::Uint128::checked_sub", "cosmwasm_std::Uint128::checked_add") and len(x.args) == 2:
        if is_old(sem, x.args[0], cell, fields):
            return ("delta", -1 if x.info.endswith("sub") else 1, w.ident(x.args[1]))
    if x.op == "bin" and x.info in ("Add", "Sub") and len(x.args) == 2:
        if is_old(sem, x.args[0], cell, fields):
            return ("delta", 1 if x.info == "Add" else -1, w.ident(x.args[1]))
        if x.info == "Add" and is_old(sem, x.args[1], cell, fields):
            return ("delta", 1, w.ident(x.args[0]))
    return None


def ledger_entries(sem, effects, cells):
    """effects: storage_effects(...) tuples.  cells: {cell: [field,...]} ledger cells and the
    numeric fields to summarise ([] = the value itself).  Returns a list of dicts."""
    out = []
    for (vis, bb, kind, cell, key, val, e) in effects:
        if cell not in cells or kind not in ("write", "update", "remove"):
            continue
        if kind == "remove":
            out.append({"vis": vis, "bb": bb, "cell": cell, "field": None, "key": sem.label(key) if key is not None else None,
                        "kexpr": key, "what": ("absolute", None), "kind": kind})
            continue
        wv = sem.written_value(kind, cell, val, True, key)
        if wv is None:
            out.append({"vis": vis, "bb": bb, "cell": cell, "field": None, "key": None, "kexpr": key, "what": ("absolute", None), "kind": kind})
            continue
        fl = cells[cell] or [None]
        for f in fl:
            fv = wv if f is None else sem.field_of(wv, f)
            what = classify(sem, cell, fv, (f,) if f else ())
            out.append({"vis": vis, "bb": bb, "cell": cell, "field": f, "key": sem.label(key) if key is not None else None,
                        "kexpr": key, "what": what, "kind": kind})
    return out


def stale_reads(sem, effects, cells):
    """read-modify-write discipline: a value saved to a ledger cell that was computed from an
    earlier load of the same cell must not have another write to that cell between the load
    and the save (the keys may alias - e.g. sender == recipient - and the save would then
    overwrite the other write with a value computed from a stale read).
    Returns [(visit, save bb, load bb, intervening write bb, cell)]."""
    from .expr import find
    w = sem.w
    out = []
    writes = {}
    for (vis, bb, kind, cell, key, val, e) in effects:
        if cell in cells and kind in ("write", "update", "remove"):
            writes.setdefault((id(vis), cell), []).append(bb)
    for (vis, bb, kind, cell, key, val, e) in effects:
        if cell not in cells or kind != "write" or val is None:
            continue
        v = w.ident(val)
        loads = find(v, lambda y: y.op == "call" and y.site is not None and y.site[0] == vis.body.path and
                     (lambda so: so is not None and so[0] == "read" and so[1] == cell)(sem.storage_op(y)))
        for ld in loads:
            lbb = ld.site[1]
            cfg = vis.be.cfg
            after_load = cfg.reach([lbb])
            for wb in writes.get((id(vis), cell), []):
                if wb == bb or wb == lbb:
                    continue
                if wb in after_load and bb in cfg.reach([wb]) and not cfg.dominates(bb, wb):
                    out.append((vis, bb, lbb, wb, cell))
    return out


def lost_updates(sem, effects, cells=None, keyed=False):
    """Interprocedural read-modify-write discipline for single-value cells (Item / Singleton): a value saved to a cell that was
    computed from an earlier load of that cell must not have another write to the cell - directly or inside a callee - between the
    load and the save; the save would write the stale copy back over it (a lost update).
    `effects` are callgraph.storage_effects of one exploration.  Returns [(save visit, save bb, load fn, load bb, writer visit,
    writer bb, cell)].  Cells with keys are skipped unless keyed=True (distinct keys do not conflict)."""
    from .expr import find
    w = sem.w
    W = {}
    for (vis, bb, kind, cell, key, val, e) in effects:
        if cell is None or (cells is not None and cell not in cells) or kind not in ("write", "update", "remove"):
            continue
        if key is not None and not keyed:
            continue
        lvl, b = vis, bb
        W.setdefault((id(lvl), cell), []).append((b, vis, bb))
        while lvl.parent is not None:
            lvl, b = lvl.parent
            W.setdefault((id(lvl), cell), []).append((b, vis, bb))
    out = []
    for (vis, bb, kind, cell, key, val, e) in effects:
        if cell is None or (cells is not None and cell not in cells) or kind != "write" or val is None:
            continue
        if key is not None and not keyed:
            continue
        v = w.ident(val)
        loads = find(v, lambda y: y.op == "call" and y.site is not None and
                     (lambda so: so is not None and so[0] == "read" and so[1] == cell)(sem.storage_op(y)))
        for ld in loads:
            # the visit (the saving one or one of its callers) in which the load happened, and where the save sits in it
            A, sb = vis, bb
            while A is not None and A.body.path != ld.site[0]:
                if A.parent is None:
                    A = None
                    break
                A, sb = A.parent
            if A is None:
                continue
            lbb = ld.site[1]
            cfg = A.be.cfg
            after_load = cfg.reach([lbb])
            for (wb, wv, wbb) in W.get((id(A), cell), []):
                if (wv is vis and wbb == bb) or wb == sb or wb == lbb:
                    continue
                if wb in after_load and sb in cfg.reach([wb]) and not cfg.dominates(sb, wb):
                    rec = (vis, bb, A, lbb, wv, wbb, cell)
                    if rec not in out:
                        out.append(rec)
    return out
