#!/usr/bin/env python3
"""tools/seed_rerun.py [-j N] [seed-id ...]

Re-runs every claimed check against each seeded change under /verif/seeded/<id>/patch.diff
(applied to a scratch copy of /repo, never to /repo itself) and rewrites the `detected_by`
/ `detected` fields of its meta.json.  Prints one line per seed."""
import json
import os
import re
import shutil
import subprocess
import sys
import tempfile
from concurrent.futures import ThreadPoolExecutor

VERIF = os.path.dirname(os.path.dirname(os.path.abspath(__file__)))
sys.path.insert(0, os.path.join(VERIF, "selftest"))
from run import scratch_copy  # noqa: E402


def one(sid, props=None):
    d = os.path.join(VERIF, "seeded", sid)
    repo = os.environ.get("KRP_REPO", "/repo")
    sc = scratch_copy(repo)
    ev = tempfile.mkdtemp(prefix="krp-ev.")
    try:
        r = subprocess.run("patch -p1 -s < %s" % os.path.join(d, "patch.diff"), shell=True, cwd=sc, capture_output=True, text=True)
        if r.returncode != 0:
            return sid, None, "patch does not apply: %s" % (r.stdout + r.stderr)[-300:]
        checks = props or [c["property_id"] for c in json.load(open(os.path.join(VERIF, "MANIFEST.json")))["checks"]]
        det = {}
        for c in checks:
            rr = subprocess.run([os.path.join(VERIF, "check"), c, "--tier", "quick"], capture_output=True, text=True,
                                env=dict(os.environ, KRP_REPO=sc, KRP_EVIDENCE_DIR=ev))
            if rr.returncode == 2:
                det[c] = {"rc": 2, "rules": ["MACHINERY-BROKEN"], "first": [rr.stdout[-300:]]}
            elif rr.returncode != 0:
                lines = [l.strip() for l in rr.stdout.splitlines() if re.match(r"\s+C\d+\.\w+:", l)]
                det[c] = {"rc": rr.returncode, "rules": sorted({l.split(":")[0] for l in lines}), "first": [l[:300] for l in lines[:2]]}
        return sid, det, ""
    finally:
        shutil.rmtree(sc, ignore_errors=True)
        shutil.rmtree(ev, ignore_errors=True)


def main():
    args = sys.argv[1:]
    jobs = 4
    if "-j" in args:
        i = args.index("-j")
        jobs = int(args[i + 1])
        del args[i:i + 2]
    ids = args or sorted(os.listdir(os.path.join(VERIF, "seeded")))
    missed = 0
    with ThreadPoolExecutor(max_workers=jobs) as ex:
        for sid, det, err in ex.map(one, ids):
            mp = os.path.join(VERIF, "seeded", sid, "meta.json")
            meta = json.load(open(mp))
            if det is None:
                print("%s: ERROR %s" % (sid, err))
                continue
            meta["detected_by"] = det
            meta["detected"] = bool(det)
            json.dump(meta, open(mp, "w"), indent=1)
            print("%s (breaks %s): %s" % (sid, meta["breaks_property"], {k: v["rules"] for k, v in det.items()} if det else "MISSED"))
            if not det:
                missed += 1
    sys.exit(1 if missed else 0)


if __name__ == "__main__":
    main()
