"""C17 - dispatcher splits rewards, bounded fee, keeps nothing (DESIGN 6, C17)."""
from ..callgraph import explore, message_effects, site_guarded, call_sites, always_passes
from ..expr import show, find, arith_args
from .common import CONTRACTS, entry, msg_enum, variant_env, stored, where, arm_handler
from .msgs import push_sequences, response_sequences, vec_elems, coin_parts, wasm_execute, is_zero_fact

DPCFG = "basset_sei_rewards_dispatcher::state::CONFIG"


def lab_short(l):
    if l is None:
        return "?"
    if l[0] == "stored":
        return "%s.%s" % (l[1].split("::")[-1] if "::" in l[1] else l[1], ".".join(l[3]))
    if l[0] in ("sender", "self"):
        return l[0]
    if l[0] == "param":
        return "msg.%s" % ".".join(l[4])
    return str(l[0])


def zero_send_sites(prog, world, sem):
    """every BankMsg::Send and every non-empty `funds`: (contract, vis, bb, descr key, amounts)"""
    out = []
    for c in CONTRACTS:
      ex = entry(prog, c)
      adt_path, adt = msg_enum(prog, ex)
      for vn in [x["name"] for x in adt["variants"]]:
        for (vis, bb, i, e) in message_effects(sem, explore(sem, ex, variant_env(prog, ex, vn))):
            coins = None
            kind = None
            if e.info[0].endswith("BankMsg") and e.info[1] == "Send":
                d = dict(zip(e.info[2], e.args))
                coins = d["amount"]
                kind = "Send"
                to = sem.label(d["to_address"])
            elif e.info[0].endswith("WasmMsg") and e.info[1] == "Execute":
                tl, payload, funds, caddr = wasm_execute(world, sem, e)
                coins = funds
                kind = "funds"
                to = tl
            else:
                continue
            elems = vec_elems(world, coins)
            if elems == []:
                continue
            k = "%s::%s" % (c, vn)
            out.append((c, vis, bb, kind, to, elems, e, k))
    return out


def run(prog, world, sem, rep):
    rep.rule("C17.a", "every BankMsg::Send and every non-empty `funds` in the workspace carries a coin amount that is reachable only "
             "through an edge on which that same value was observed non-zero (obligation lifted to callers for helper parameters)", 7)
    rep.rule("C17.b", "keeper transfer amount = (queried own balance of denom D) x Config.krp_keeper_rate, sent in D to Config.krp_keeper_address", 2)
    rep.rule("C17.c", "the forwarded share is balance(D) - keeper(D) of the same D: bSei share sent to Config.bsei_reward_contract, stSei "
             "share attached as funds of BondRewards to Config.hub_contract (nothing retained)", 2)
    rep.rule("C17.d", "the reward contract's UpdateGlobalIndex is emitted on every path, to Config.bsei_reward_contract, after the bSei-share send", 2)
    rep.rule("C17.j", "the keeper's cut is unconditional: every success exit of DispatchRewards passes the keeper transfer of each reward coin, except "
             "through an edge on which that coin's balance (or the cut itself) was observed zero", 2)
    rep.rule("C17.h", "each held coin is counted once: the reward totals of the swap computation are accumulated over the elements of one "
             "query_all_balances(own address) answer (the bank lists each denom once), not over a configurable list", 1)
    rep.rule("C17.i", "SwapToRewardDenom emits the conversion swaps (other denoms -> bSei reward denom) before the rebalancing swap whose offer is "
             "computed from totals that include their simulated proceeds, on every success path", 1)
    rep.rule("C17.g", "swap computation roles: stSei share = total.multiply_ratio(stsei_total_bonded, stsei_total_bonded + bsei_total_bonded); "
             "the coin offered is in the denom of the side being sold and the asked denom is the other one; the stSei-side total "
             "accumulates only coins whose denom equals Config.stsei_reward_denom", 4)

    # ---------------------------------------------------------------- C17.a
    for (c, vis, bb, kind, to, elems, e, k) in zero_send_sites(prog, world, sem):
        if elems is None:
            rep.ob("C17.a", "%s %s in %s" % (c, kind, vis.body.path), False,
                   "cannot take the coin list apart: %s" % show(e, 4), where(vis.body, bb))
            continue
        for coin in elems:
            amt, denom = coin_parts(world, sem, coin)
            aid = world.ident(amt)
            dl = sem.label(denom)
            # a site is named by the message variant that reaches it and what it sends, not by the function it happens to sit in
            key = "C17.a | %s | %s{to=%s, denom=%s}" % (k, kind, lab_short(to), lab_short(dl))

            def fp(f, resolve, aid=aid):
                return is_zero_fact(world, f, resolve, aid)
            ok, d = site_guarded(sem, vis, bb, fp)
            rep.ob("C17.a", "%s %s{to=%s, denom=%s}" % (k, kind, lab_short(to), lab_short(dl)), ok,
                   "coin amount %s is not checked to be non-zero before the transfer is emitted (%s)" % (show(aid, 4), d) if not ok else d,
                   where(vis.body, bb), key=key, fkey="%s{to=%s, denom=%s}" % (kind, lab_short(to), lab_short(dl)))

    # ---------------------------------------------------------------- C17.b/c/d: DispatchRewards
    ex = entry(prog, "dispatcher")
    vs = explore(sem, ex, variant_env(prog, ex, "DispatchRewards"))
    msgs = message_effects(sem, vs)
    keeper = {}   # denom field -> keeper amount identity
    balances = {}
    for (vis, bb, i, e) in msgs:
        if not (e.info[0].endswith("BankMsg") and e.info[1] == "Send"):
            continue
        d = dict(zip(e.info[2], e.args))
        to = sem.label(d["to_address"])
        elems = vec_elems(world, d["amount"]) or []
        for coin in elems:
            amt, denom = coin_parts(world, sem, coin)
            dl = sem.label(denom)
            a = world.ident(amt)
            if to == stored(DPCFG, "krp_keeper_address"):
                ok = False
                detail = "keeper amount %s" % show(a, 5)
                if a.op == "bin" and a.info == "Mul":
                    l0 = sem.label(a.args[0])
                    l1 = sem.label(a.args[1])
                    if l1 == stored(DPCFG, "krp_keeper_rate") and l0 and l0[0] == "balance" and l0[1] == ("self",) and l0[2] == dl and l0[3] == ("amount",):
                        ok = dl in (stored(DPCFG, "bsei_reward_denom"), stored(DPCFG, "stsei_reward_denom"))
                        keeper[dl] = a
                        balances[dl] = l0
                rep.ob("C17.b", "keeper send in %s" % lab_short(dl), ok,
                       "keeper transfer is not balance(%s) x krp_keeper_rate in that denom: %s" % (lab_short(dl), detail) if not ok
                       else "amount = balance(self, %s) x krp_keeper_rate" % lab_short(dl), where(vis.body, bb))
                if ok:
                    # C17.j: the keeper is paid on every success path, unless that balance (or the cut itself) was observed zero
                    bal_l, cut = balances[dl], a

                    def nothing_to_pay(f, resolve, bal_l=bal_l, cut=cut):
                        if f[0] == "truth" and f[2] is True and f[1].op == "call" and f[1].info.endswith("::is_zero"):
                            x = resolve(f[1].args[0])
                            return sem.label(x) == bal_l or world.ident(x) == cut
                        return False
                    root = [v for v in vs if v.parent is None][0]
                    okj, dj = always_passes(sem, vis, bb, nothing_to_pay, root)
                    rep.ob("C17.j", "keeper is paid its cut of %s on every path" % lab_short(dl), okj,
                           "DispatchRewards can succeed without sending the keeper its cut of %s although that balance was not observed zero: %s" % (lab_short(dl), dj)
                           if not okj else dj, where(vis.body, bb), key="C17.j | %s" % lab_short(dl), fkey=lab_short(dl))
    # shares
    bsei_d = stored(DPCFG, "bsei_reward_denom")
    stsei_d = stored(DPCFG, "stsei_reward_denom")

    def is_remainder(a, dl):
        a = world.ident(a)
        if a.op == "bin" and a.info == "Sub":
            x, y = a.args
        elif a.op == "call" and a.info == "cosmwasm_std::Uint128::checked_sub":
            x, y = a.args
        else:
            return False
        return sem.label(x) == balances.get(dl) and dl in keeper and world.ident(y) == keeper[dl]

    found_b = found_s = False
    for (vis, bb, i, e) in msgs:
        if e.info[0].endswith("BankMsg") and e.info[1] == "Send":
            d = dict(zip(e.info[2], e.args))
            if sem.label(d["to_address"]) == stored(DPCFG, "bsei_reward_contract"):
                found_b = True
                elems = vec_elems(world, d["amount"]) or []
                ok = len(elems) == 1
                if ok:
                    amt, denom = coin_parts(world, sem, elems[0])
                    ok = sem.label(denom) == bsei_d and is_remainder(amt, bsei_d)
                rep.ob("C17.c", "bSei share", ok, "bSei share is not balance - keeper of bsei_reward_denom: %s" % show(e, 6) if not ok
                       else "balance(bsei_reward_denom) - keeper, to Config.bsei_reward_contract", where(vis.body, bb))
        elif e.info[0].endswith("WasmMsg"):
            tl, payload, funds, caddr = wasm_execute(world, sem, e)
            if payload is not None and payload.op == "adt" and payload.info[1] == "BondRewards":
                found_s = True
                elems = vec_elems(world, funds) or []
                ok = tl == stored(DPCFG, "hub_contract") and len(elems) == 1
                if ok:
                    amt, denom = coin_parts(world, sem, elems[0])
                    ok = sem.label(denom) == stsei_d and is_remainder(amt, stsei_d)
                rep.ob("C17.c", "stSei share", ok, "stSei share is not balance - keeper of stsei_reward_denom re-bonded to the hub: %s" % show(e, 6)
                       if not ok else "balance(stsei_reward_denom) - keeper as funds of BondRewards to Config.hub_contract", where(vis.body, bb))
    if not found_b:
        rep.ob("C17.c", "bSei share", False, "anchor-lost: no BankMsg::Send to Config.bsei_reward_contract in DispatchRewards")
    if not found_s:
        rep.ob("C17.c", "stSei share", False, "anchor-lost: no BondRewards message in DispatchRewards")

    # C17.d ordering: on every path of pushes the index update comes after the bSei share
    root = [v for v in vs if v.parent is None][0]
    handler = None
    for v in vs:
        if any(vv is v for (vv, bb, i, e) in msgs):
            handler = v
            break
    ok_d = False
    detail = "anchor-lost: message list not found"
    if handler is not None:
        seqs = []
        n_exits = 0
        for (bb, idx, kind, x) in sem.ret_sites(handler.be):
            if kind != "ok" or bb not in handler.blocks:
                continue
            n_exits += 1
            seqs.extend(response_sequences(world, x))
        if seqs:
            ok_d = True
            detail = "%d success exit(s), %d push sequence(s) checked" % (n_exits, len(seqs))
            for s in seqs:
                kinds = [classify_msg(world, sem, handler.resolve(x)) for x in s]
                if "index_update" not in kinds:
                    ok_d, detail = False, "a success path emits no UpdateGlobalIndex to the reward contract: %s" % kinds
                    break
                if "bsei_share" in kinds and kinds.index("bsei_share") > kinds.index("index_update"):
                    ok_d, detail = False, "UpdateGlobalIndex is emitted before the bSei share transfer: %s" % kinds
                    break
                if kinds[-1] != "index_update":
                    ok_d, detail = False, "UpdateGlobalIndex is not the last message: %s" % kinds
                    break
    rep.ob("C17.d", "index update after bSei share on every path", ok_d, detail, where(handler.body) if handler else None)
    tgt_ok = False
    for (vis, bb, i, e) in msgs:
        if e.info[0].endswith("WasmMsg"):
            tl, payload, funds, caddr = wasm_execute(world, sem, e)
            if payload is not None and payload.op == "adt" and payload.info[1] == "UpdateGlobalIndex":
                tgt_ok = tl == stored(DPCFG, "bsei_reward_contract")
    rep.ob("C17.d", "index update target", tgt_ok, "UpdateGlobalIndex goes to Config.bsei_reward_contract" if tgt_ok
           else "UpdateGlobalIndex is not sent to Config.bsei_reward_contract")

    # ---------------------------------------------------------------- C17.g swap computation
    vs2 = explore(sem, ex, variant_env(prog, ex, "SwapToRewardDenom"))
    okord, dord, h2 = swap_order(world, sem, vs2)
    rep.ob("C17.i", "conversions precede the rebalancing swap", okord, dord, where(h2.body))
    mr = call_sites(sem, vs2, lambda k: k == "cosmwasm_std::Uint128::multiply_ratio")
    if len(mr) != 1:
        rep.ob("C17.g", "share formula", False, "anchor-lost: expected one multiply_ratio in the swap computation, found %d" % len(mr))
        return
    vis, bb, e = mr[0]
    total, num, den = e.args
    ln = sem.label(num)
    den_i = world.ident(den)
    dl = sorted(str(sem.label(x)) for x in den_i.args) if den_i.op == "bin" and den_i.info == "Add" else []

    def is_msg(l, f):
        return l is not None and l[0] == "param" and l[4] == (f,)
    ok = is_msg(ln, "stsei_total_bonded") and den_i.op == "bin" and den_i.info == "Add" and \
        {tuple(sem.label(x)[4]) if sem.label(x) else None for x in den_i.args} == {("stsei_total_bonded",), ("bsei_total_bonded",)}
    rep.ob("C17.g", "share = total x stsei_bonded / (stsei_bonded + bsei_bonded)", ok,
           "numerator %s, denominator %s" % (lab_short(ln), dl), where(vis.body, bb))
    tot = world.ident(total)
    x_avail = None
    if tot.op == "bin" and tot.info == "Add":
        plain = [a for a in tot.args if not (world.ident(a).op == "bin" and world.ident(a).info == "Mul")]
        if len(plain) == 1:
            x_avail = world.ident(plain[0])
    rep.ob("C17.g", "total = stSei-side rewards + bSei-side rewards x rate", x_avail is not None, "total = %s" % show(tot, 4), where(vis.body, bb))
    # offer coin pairing
    share_id = world.ident(e)
    pairs = 0
    bad = []
    for v in vs2:
        if v.body.path != vis.body.path:
            continue
        ret = v.resolve(world.ret_expr(v.body))
        for a in world._ok_alts(ret, "ok", 0, True):
            a = world.ident(a)
            if a.op != "tuple" or len(a.args) != 2:
                continue
            amt, denom = coin_parts(world, sem, a.args[0])
            ask = sem.label(a.args[1])
            dlab = sem.label(denom)
            ai = world.ident(amt)
            sub = ai
            if sub.op == "bin" and sub.info == "Mul":
                sub = world.ident(sub.args[0])
            if arith_args(sub, "Sub") is None:
                bad.append("offer amount is not a difference: %s" % show(ai, 4))
                continue
            minu, subt = world.ident(arith_args(sub, "Sub")[0]), world.ident(arith_args(sub, "Sub")[1])
            pairs += 1
            if minu == x_avail and subt == share_id:
                if not (dlab == stsei_d and ask == bsei_d):
                    bad.append("selling surplus stSei-side rewards but offer denom=%s ask=%s" % (lab_short(dlab), lab_short(ask)))
            elif minu == share_id and subt == x_avail:
                if not (dlab == bsei_d and ask == stsei_d):
                    bad.append("buying stSei-side rewards but offer denom=%s ask=%s" % (lab_short(dlab), lab_short(ask)))
            else:
                bad.append("offer amount operands are not (available, share): %s" % show(ai, 5))
    rep.ob("C17.g", "offer coin denom / ask denom pairing", pairs == 2 and not bad,
           "; ".join(bad) if bad else "%d offer alternatives checked" % pairs, where(vis.body))
    # the stSei-side total accumulates only coins of stsei_reward_denom
    acc_ok = False
    detail = "anchor-lost: accumulation of the stSei-side total not found"
    if x_avail is not None:
        adds = find(x_avail, lambda x: x.op == "bin" and x.info == "Add" and x.site is not None)
        for a in adds:
            for v in vs2:
                if v.body.path == a.site[0]:
                    def fp(f, resolve):
                        if f[0] == "cmp" and f[1] == "Eq":
                            ls = {sem.label(resolve(f[2])), sem.label(resolve(f[3]))}
                            return stsei_d in ls
                        return False
                    g, d = site_guarded(sem, v, a.site[1], fp)
                    acc_ok = g
                    detail = d
                    break
            break
    rep.ob("C17.g", "stSei-side total accumulates only Config.stsei_reward_denom coins", acc_ok, detail)
    # C17.h
    ok_h = False
    det_h = "anchor-lost: accumulation of the reward totals not found"
    tots = []
    if tot.op == "bin" and tot.info == "Add":
        for a in tot.args:
            ai = world.ident(a)
            tots.append(ai.args[0] if (ai.op == "bin" and ai.info == "Mul") else ai)
    srcs_ok = []
    for tv in tots:
        adds = find(world.ident(tv), lambda x: x.op == "bin" and x.info == "Add" and x.site is not None and any(z.op == "rec" for z in x.args))
        for a in adds:
            amt = [z for z in a.args if z.op != "rec"][0]
            n = world.norm(amt)
            its = find(n, lambda y: y.op == "call" and y.info.endswith("Iterator::next"))
            good = False
            for it in its:
                q = find(it, lambda y: y.op == "call" and y.info.endswith("QuerierWrapper::query_all_balances"))
                if q and sem.label(q[0].args[1]) == ("self",):
                    good = True
            direct = find(n, lambda y: y.op == "call" and y.info.endswith("QuerierWrapper::query_balance"))
            srcs_ok.append(good and not direct)
    if srcs_ok:
        ok_h = all(srcs_ok)
        det_h = "%d accumulation site(s); all over the elements of query_all_balances(self): %s" % (len(srcs_ok), ok_h)
    rep.ob("C17.h", "reward totals are accumulated over the bank's balance list", ok_h, det_h)



def swap_order(world, sem, vs2):
    """C17.i / C19.f: (ok, detail, handler visit) - conversions precede the rebalancing swap in every response of SwapToRewardDenom"""
    # ---- C17.i: the rebalancing swap spends proceeds of the conversions, so the conversions come first in the response
    h2 = arm_handler(sem, vs2)
    seqs2 = []
    for (bb2, idx2, kind2, x2) in sem.ret_sites(h2.be):
        if kind2 == "ok" and bb2 in h2.blocks:
            seqs2.extend(response_sequences(world, x2))
    okord = bool(seqs2)
    dord = "anchor-lost: no response of the swap handler found"
    kinds_all = []
    for sq in seqs2:
        ks = []
        for el in sq:
            eli = world.ident(el, expand_ws=False)
            base = eli.args[0] if eli.op == "proj" else eli
            if eli.op == "field" and eli.info[0] == "2" and find(eli.args[0], lambda y: y.op == "call" and y.info.endswith("convert_to_target_denoms")):
                ks.append("conversions")
            elif base.op == "call" and world.callee_body(base) is not None and find(world.norm(eli), lambda y: y.op == "adt" and y.info[0].endswith("WasmMsg")):
                ks.append("rebalance")
            elif find(world.norm(eli), lambda y: y.op == "adt" and y.info[0].endswith("WasmMsg")):
                ks.append("rebalance")
            else:
                ks.append("?")
        kinds_all.append(ks)
        if "conversions" not in ks:
            okord, dord = False, "a success path of the swap handler does not emit the conversion swaps: %s" % ks
        elif "rebalance" in ks and ks.index("rebalance") < ks.index("conversions"):
            okord, dord = False, "the rebalancing swap is emitted before the conversion swaps that fund it: %s" % ks
        elif "?" in ks:
            okord, dord = False, "unrecognised message in the swap response: %s" % ks
    if okord:
        dord = "message sequences %s" % kinds_all
    return okord, dord, h2


def classify_msg(world, sem, x):
    x = world.ident(x)
    inner = x
    if inner.op == "adt" and inner.info[0].endswith("CosmosMsg") and inner.args:
        inner = world.ident(inner.args[0])
    if inner.op == "adt" and inner.info[0].endswith("BankMsg"):
        d = dict(zip(inner.info[2], inner.args))
        to = sem.label(d.get("to_address"))
        if to == stored(DPCFG, "bsei_reward_contract"):
            return "bsei_share"
        if to == stored(DPCFG, "krp_keeper_address"):
            return "keeper"
        return "send"
    if inner.op == "adt" and inner.info[0].endswith("WasmMsg"):
        tl, payload, funds, caddr = wasm_execute(world, sem, inner)
        if payload is not None and payload.op == "adt":
            if payload.info[1] == "UpdateGlobalIndex" and tl == stored(DPCFG, "bsei_reward_contract"):
                return "index_update"
            return "wasm:" + payload.info[1]
        return "wasm"
    return "other"
