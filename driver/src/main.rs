// krp-facts: rustc_private fact extractor for the krp-staking-contracts verification.
//
// Injected with RUSTC_WORKSPACE_WRAPPER under `cargo +nightly check`. For every workspace
// crate it dumps one JSON document ($KRP_FACTS_DIR/<crate>.json, one write per process)
// holding the unoptimised MIR of every function, method, closure and const/static body,
// with callees resolved through type information (Instance::try_resolve), field
// projections annotated with field names / owning ADTs, promoted constants, and the
// table of ADTs mentioned. Nothing is executed; the rule engine (python) decides on it.
#![feature(rustc_private)]

extern crate rustc_abi;
extern crate rustc_driver;
extern crate rustc_hir;
extern crate rustc_interface;
extern crate rustc_middle;
extern crate rustc_span;

mod json;

use json::Json;
use rustc_driver::Compilation;
use rustc_hir::def::DefKind;
use rustc_hir::def_id::{DefId, LOCAL_CRATE};
use rustc_interface::interface::Compiler;
use rustc_middle::mir::{
    self, AggregateKind, BasicBlockData, Body, Const, ConstValue, Operand, Place, PlaceRef,
    ProjectionElem, Rvalue, StatementKind, TerminatorKind, UnwindAction,
};
use rustc_middle::mir::interpret::{GlobalAlloc, Scalar};
use rustc_middle::ty::print::{with_no_trimmed_paths, with_no_visible_paths, with_resolve_crate_name};
use rustc_middle::ty::{self, Instance, Ty, TyCtxt, TypingEnv};
use rustc_span::Span;
use std::collections::BTreeMap;

struct Cb;

impl rustc_driver::Callbacks for Cb {
    fn after_analysis<'tcx>(&mut self, _c: &Compiler, tcx: TyCtxt<'tcx>) -> Compilation {
        if let Ok(dir) = std::env::var("KRP_FACTS_DIR") {
            let name = tcx.crate_name(LOCAL_CRATE).to_string();
            if name != "build_script_build" {
                let doc = with_resolve_crate_name!(with_no_trimmed_paths!(Extractor::new(tcx).run()));
                let path = format!("{}/{}.json", dir, name);
                let tmp = format!("{}.tmp.{}", path, std::process::id());
                std::fs::write(&tmp, doc.to_string()).expect("write facts");
                std::fs::rename(&tmp, &path).expect("rename facts");
            }
        }
        Compilation::Continue
    }
}

fn main() {
    let mut args: Vec<String> = std::env::args().collect();
    // As RUSTC_WORKSPACE_WRAPPER: argv = [driver, rustc, args..]
    if args.len() > 1 && (args[1].ends_with("rustc") || args[1].contains("/rustc")) {
        args.remove(1);
    }
    args[0] = "rustc".to_string();
    let mut cb = Cb;
    rustc_driver::run_compiler(&args, &mut cb);
}

struct Extractor<'tcx> {
    tcx: TyCtxt<'tcx>,
    adts: BTreeMap<String, Json>,
    n_bodies: u64,
    n_blocks: u64,
    n_calls: u64,
}

fn s(x: impl Into<String>) -> Json {
    Json::Str(x.into())
}
fn n(x: impl TryInto<i128>) -> Json {
    Json::Num(x.try_into().ok().unwrap_or(-1))
}

impl<'tcx> Extractor<'tcx> {
    fn new(tcx: TyCtxt<'tcx>) -> Self {
        Extractor { tcx, adts: BTreeMap::new(), n_bodies: 0, n_blocks: 0, n_calls: 0 }
    }

    fn path(&self, did: DefId) -> String {
        self.tcx.def_path_str(did)
    }

    fn line(&self, sp: Span) -> (String, u32, u32) {
        let sm = self.tcx.sess.source_map();
        let lo = sm.lookup_char_pos(sp.lo());
        let hi = sm.lookup_char_pos(sp.hi());
        let file = match &lo.file.name {
            rustc_span::FileName::Real(r) => match r.local_path() {
                Some(p) => p.to_string_lossy().to_string(),
                None => format!("{:?}", r),
            },
            o => format!("{:?}", o),
        };
        (file, lo.line as u32, hi.line as u32)
    }

    fn span_json(&self, sp: Span) -> Json {
        let (_f, lo, _hi) = self.line(sp);
        let mac = sp.from_expansion()
            && matches!(sp.ctxt().outer_expn_data().kind, rustc_span::ExpnKind::Macro(..));
        if mac {
            // line of the outermost call site, flagged as macro-generated
            let (_f2, l2, _) = self.line(sp.source_callsite());
            Json::Arr(vec![n(l2), n(1)])
        } else {
            Json::Arr(vec![n(lo), n(0)])
        }
    }

    fn ty_str(&self, t: Ty<'tcx>) -> String {
        format!("{:?}", t)
    }

    fn note_adt(&mut self, t: Ty<'tcx>) {
        let t = t.peel_refs();
        if let ty::Adt(def, _args) = t.kind() {
            let p = self.path(def.did());
            if self.adts.contains_key(&p) {
                return;
            }
            self.adts.insert(p.clone(), Json::Null);
            let kind = if def.is_enum() {
                "enum"
            } else if def.is_union() {
                "union"
            } else {
                "struct"
            };
            let mut variants = vec![];
            for (vi, v) in def.variants().iter_enumerated() {
                let discr = if def.is_enum() {
                    def.discriminant_for_variant(self.tcx, vi).val as i128
                } else {
                    0
                };
                let mut fields = vec![];
                for f in v.fields.iter() {
                    let fty = self.tcx.type_of(f.did).instantiate_identity().skip_norm_wip();
                    fields.push(Json::obj(vec![
                        ("name", s(f.name.to_string())),
                        ("ty", s(self.ty_str(fty))),
                    ]));
                }
                variants.push(Json::obj(vec![
                    ("name", s(v.name.to_string())),
                    ("discr", n(discr)),
                    ("idx", n(vi.as_u32())),
                    ("fields", Json::Arr(fields)),
                ]));
            }
            let j = Json::obj(vec![
                ("kind", s(kind)),
                ("krate", s(self.tcx.crate_name(def.did().krate).to_string())),
                ("variants", Json::Arr(variants)),
            ]);
            self.adts.insert(p, j);
        }
    }

    fn place(&mut self, body: &Body<'tcx>, p: Place<'tcx>) -> Json {
        self.place_ref(body, p.as_ref())
    }

    fn place_ref(&mut self, body: &Body<'tcx>, p: PlaceRef<'tcx>) -> Json {
        let tcx = self.tcx;
        let mut proj = vec![];
        for (i, elem) in p.projection.iter().enumerate() {
            let base = PlaceRef { local: p.local, projection: &p.projection[..i] };
            let bty = base.ty(&body.local_decls, tcx);
            match *elem {
                ProjectionElem::Deref => proj.push(Json::Arr(vec![s("*")])),
                ProjectionElem::Field(fi, fty) => {
                    let mut name = format!("{}", fi.as_u32());
                    let mut of = String::new();
                    let mut var = String::new();
                    match bty.ty.kind() {
                        ty::Adt(def, _) => {
                            self.note_adt(bty.ty);
                            let vi = bty.variant_index.unwrap_or(rustc_abi::FIRST_VARIANT);
                            let v = def.variant(vi);
                            name = v.fields[fi].name.to_string();
                            of = self.path(def.did());
                            if def.is_enum() {
                                var = v.name.to_string();
                            }
                        }
                        ty::Closure(did, _) => {
                            of = format!("closure:{}", self.path(*did));
                        }
                        ty::Tuple(_) => {
                            of = "tuple".to_string();
                        }
                        _ => {}
                    }
                    proj.push(Json::Arr(vec![
                        s("f"),
                        n(fi.as_u32()),
                        s(name),
                        s(of),
                        s(var),
                        s(self.ty_str(fty)),
                    ]));
                }
                ProjectionElem::Index(l) => proj.push(Json::Arr(vec![s("i"), n(l.as_u32())])),
                ProjectionElem::ConstantIndex { offset, min_length: _, from_end } => {
                    proj.push(Json::Arr(vec![s("ci"), n(offset), Json::Bool(from_end)]))
                }
                ProjectionElem::Subslice { from, to, from_end } => {
                    proj.push(Json::Arr(vec![s("sub"), n(from), n(to), Json::Bool(from_end)]))
                }
                ProjectionElem::Downcast(sym, vi) => {
                    self.note_adt(bty.ty);
                    let name = match sym {
                        Some(x) => x.to_string(),
                        None => match bty.ty.kind() {
                            ty::Adt(def, _) => def.variant(vi).name.to_string(),
                            _ => format!("{}", vi.as_u32()),
                        },
                    };
                    proj.push(Json::Arr(vec![s("d"), s(name), n(vi.as_u32())]))
                }
                ProjectionElem::OpaqueCast(_) => proj.push(Json::Arr(vec![s("oc")])),
                ProjectionElem::UnwrapUnsafeBinder(_) => proj.push(Json::Arr(vec![s("ub")])),
            }
        }
        Json::obj(vec![("l", n(p.local.as_u32())), ("p", Json::Arr(proj))])
    }

    fn fn_ref(&mut self, owner: DefId, fd: DefId, ga: ty::GenericArgsRef<'tcx>) -> Json {
        let tcx = self.tcx;
        let orig = tcx.def_path_str_with_args(fd, ga);
        let orig_plain = self.path(fd);
        let mut res_path = orig_plain.clone();
        let mut res_full = orig.clone();
        let mut res_did = fd;
        let mut kind = "item";
        let env = TypingEnv::post_analysis(tcx, owner);
        if let Ok(Some(inst)) = Instance::try_resolve(tcx, env, fd, ga) {
            res_did = inst.def_id();
            res_path = self.path(res_did);
            res_full = tcx.def_path_str_with_args(res_did, inst.args);
            kind = match inst.def {
                ty::InstanceKind::Item(_) => "item",
                ty::InstanceKind::Virtual(..) => "virtual",
                ty::InstanceKind::ClosureOnceShim { .. } => "closure_once_shim",
                ty::InstanceKind::FnPtrShim(..) => "fn_ptr_shim",
                ty::InstanceKind::CloneShim(..) => "clone_shim",
                ty::InstanceKind::DropGlue(..) => "drop_glue",
                ty::InstanceKind::Intrinsic(..) => "intrinsic",
                ty::InstanceKind::ReifyShim(..) => "reify_shim",
                _ => "other",
            };
        }
        let gargs: Vec<Json> = ga.iter().map(|a| s(format!("{:?}", a))).collect();
        let trait_of = tcx.trait_of_assoc(fd).map(|t| self.path(t)).unwrap_or_default();
        let dpath = with_no_visible_paths!(self.path(res_did));
        Json::obj(vec![
            ("path", s(res_path)),
            ("dpath", s(dpath)),
            ("full", s(res_full)),
            ("orig", s(orig_plain)),
            ("orig_full", s(orig)),
            ("trait", s(trait_of)),
            ("name", s(tcx.item_name(fd).to_string())),
            ("krate", s(tcx.crate_name(res_did.krate).to_string())),
            ("local", Json::Bool(res_did.is_local())),
            ("is_closure", Json::Bool(tcx.is_closure_like(res_did))),
            ("kind", s(kind)),
            ("gargs", Json::Arr(gargs)),
        ])
    }

    fn konst(&mut self, owner: DefId, c: &mir::ConstOperand<'tcx>) -> Json {
        let tcx = self.tcx;
        let ty = c.const_.ty();
        let mut fields = vec![("k", s("const")), ("ty", s(self.ty_str(ty)))];
        if let ty::FnDef(fd, ga) = ty.kind() {
            fields.push(("fn", self.fn_ref(owner, *fd, ga)));
            return Json::obj(fields);
        }
        match c.const_ {
            Const::Unevaluated(uv, _) => {
                if let Some(p) = uv.promoted {
                    fields.push(("promoted", n(p.as_u32())));
                } else {
                    fields.push(("item", s(self.path(uv.def))));
                    fields.push(("item_kind", s(format!("{:?}", tcx.def_kind(uv.def)))));
                }
            }
            Const::Val(v, _) => match v {
                ConstValue::Scalar(Scalar::Int(i)) => {
                    let bits = i.to_bits_unchecked();
                    fields.push(("scalar", s(format!("{}", bits))));
                    fields.push(("size", n(i.size().bytes())));
                }
                ConstValue::Scalar(Scalar::Ptr(ptr, _)) => {
                    let aid = ptr.provenance.alloc_id();
                    match tcx.try_get_global_alloc(aid) {
                        Some(GlobalAlloc::Static(did)) => {
                            fields.push(("static", s(self.path(did))));
                        }
                        Some(GlobalAlloc::Function { instance }) => {
                            fields.push(("fnptr", s(self.path(instance.def_id()))));
                        }
                        Some(GlobalAlloc::Memory(_)) => fields.push(("mem", n(1))),
                        _ => fields.push(("ptr", n(1))),
                    }
                }
                ConstValue::ZeroSized => fields.push(("zst", n(1))),
                ConstValue::Slice { .. } => {
                    if let Some(bytes) = v.try_get_slice_bytes_for_diagnostics(tcx) {
                        fields.push(("str", s(String::from_utf8_lossy(bytes).to_string())));
                    } else {
                        fields.push(("slice", n(1)));
                    }
                }
                ConstValue::Indirect { .. } => fields.push(("indirect", n(1))),
            },
            Const::Ty(_, ct) => {
                fields.push(("tyconst", s(format!("{:?}", ct))));
            }
        }
        Json::obj(fields)
    }

    fn operand(&mut self, owner: DefId, body: &Body<'tcx>, o: &Operand<'tcx>) -> Json {
        match o {
            Operand::Copy(p) => Json::obj(vec![("k", s("copy")), ("pl", self.place(body, *p))]),
            Operand::Move(p) => Json::obj(vec![("k", s("move")), ("pl", self.place(body, *p))]),
            Operand::Constant(c) => self.konst(owner, c),
            _ => Json::obj(vec![("k", s("rtc"))]),
        }
    }

    fn rvalue(&mut self, owner: DefId, body: &Body<'tcx>, rv: &Rvalue<'tcx>) -> Json {
        let tcx = self.tcx;
        match rv {
            Rvalue::Use(o, _) => Json::obj(vec![("k", s("use")), ("op", self.operand(owner, body, o))]),
            Rvalue::Repeat(o, _) => {
                Json::obj(vec![("k", s("repeat")), ("op", self.operand(owner, body, o))])
            }
            Rvalue::Ref(_, bk, p) => Json::obj(vec![
                ("k", s("ref")),
                ("mut", Json::Bool(matches!(bk, mir::BorrowKind::Mut { .. }))),
                ("pl", self.place(body, *p)),
            ]),
            Rvalue::RawPtr(_, p) => Json::obj(vec![("k", s("rawptr")), ("pl", self.place(body, *p))]),
            Rvalue::Cast(ck, o, t) => Json::obj(vec![
                ("k", s("cast")),
                ("ck", s(format!("{:?}", ck))),
                ("op", self.operand(owner, body, o)),
                ("ty", s(self.ty_str(*t))),
            ]),
            Rvalue::BinaryOp(op, ab) => Json::obj(vec![
                ("k", s("bin")),
                ("op", s(format!("{:?}", op))),
                ("a", self.operand(owner, body, &ab.0)),
                ("b", self.operand(owner, body, &ab.1)),
            ]),
            Rvalue::UnaryOp(op, a) => Json::obj(vec![
                ("k", s("un")),
                ("op", s(format!("{:?}", op))),
                ("a", self.operand(owner, body, a)),
            ]),
            Rvalue::Discriminant(p) => {
                let pty = p.ty(&body.local_decls, tcx).ty;
                self.note_adt(pty);
                let of = match pty.kind() {
                    ty::Adt(def, _) => self.path(def.did()),
                    _ => String::new(),
                };
                Json::obj(vec![("k", s("discr")), ("pl", self.place(body, *p)), ("of", s(of))])
            }
            Rvalue::Aggregate(kind, ops) => {
                let mut fields = vec![("k", s("agg"))];
                match **kind {
                    AggregateKind::Adt(did, vi, args, _, _) => {
                        let def = tcx.adt_def(did);
                        let t = Ty::new_adt(tcx, def, args);
                        self.note_adt(t);
                        let v = def.variant(vi);
                        fields.push(("adt", s(self.path(did))));
                        fields.push(("variant", s(v.name.to_string())));
                        fields.push(("is_enum", Json::Bool(def.is_enum())));
                        fields.push((
                            "fields",
                            Json::Arr(v.fields.iter().map(|f| s(f.name.to_string())).collect()),
                        ));
                        fields.push(("ty", s(self.ty_str(t))));
                    }
                    AggregateKind::Tuple => fields.push(("tuple", Json::Bool(true))),
                    AggregateKind::Array(_) => fields.push(("array", Json::Bool(true))),
                    AggregateKind::Closure(did, _) => fields.push(("closure", s(self.path(did)))),
                    _ => fields.push(("otheragg", s(format!("{:?}", kind)))),
                }
                let mut o = vec![];
                for x in ops.iter() {
                    o.push(self.operand(owner, body, x));
                }
                fields.push(("ops", Json::Arr(o)));
                Json::obj(fields)
            }
            Rvalue::CopyForDeref(p) => Json::obj(vec![
                ("k", s("use")),
                ("op", Json::obj(vec![("k", s("copy")), ("pl", self.place(body, *p))])),
            ]),
            other => Json::obj(vec![("k", s("other")), ("dbg", s(format!("{:?}", other)))]),
        }
    }

    fn block(&mut self, owner: DefId, body: &Body<'tcx>, bb: &BasicBlockData<'tcx>) -> Json {
        let tcx = self.tcx;
        let mut stmts = vec![];
        for st in &bb.statements {
            match &st.kind {
                StatementKind::Assign(b) => {
                    let (pl, rv) = &**b;
                    stmts.push(Json::obj(vec![
                        ("k", s("assign")),
                        ("pl", self.place(body, *pl)),
                        ("rv", self.rvalue(owner, body, rv)),
                        ("sp", self.span_json(st.source_info.span)),
                    ]));
                }
                StatementKind::SetDiscriminant { place, variant_index } => {
                    stmts.push(Json::obj(vec![
                        ("k", s("setdiscr")),
                        ("pl", self.place(body, **place)),
                        ("variant", n(variant_index.as_u32())),
                        ("sp", self.span_json(st.source_info.span)),
                    ]));
                }
                _ => {}
            }
        }
        let term = bb.terminator();
        let sp = self.span_json(term.source_info.span);
        let unwind_of = |u: &UnwindAction| -> Json {
            match u {
                UnwindAction::Cleanup(b) => n(b.as_u32()),
                _ => Json::Null,
            }
        };
        let t = match &term.kind {
            TerminatorKind::Goto { target } => {
                Json::obj(vec![("k", s("goto")), ("target", n(target.as_u32()))])
            }
            TerminatorKind::SwitchInt { discr, targets } => {
                let dty = discr.ty(&body.local_decls, tcx);
                let mut arms = vec![];
                for (v, t) in targets.iter() {
                    arms.push(Json::Arr(vec![s(format!("{}", v)), n(t.as_u32())]));
                }
                Json::obj(vec![
                    ("k", s("switch")),
                    ("discr", self.operand(owner, body, discr)),
                    ("dty", s(self.ty_str(dty))),
                    ("arms", Json::Arr(arms)),
                    ("otherwise", n(targets.otherwise().as_u32())),
                ])
            }
            TerminatorKind::Return => Json::obj(vec![("k", s("return"))]),
            TerminatorKind::Unreachable => Json::obj(vec![("k", s("unreachable"))]),
            TerminatorKind::UnwindResume => Json::obj(vec![("k", s("resume"))]),
            TerminatorKind::UnwindTerminate(_) => Json::obj(vec![("k", s("terminate"))]),
            TerminatorKind::Drop { place, target, unwind, .. } => Json::obj(vec![
                ("k", s("drop")),
                ("pl", self.place(body, *place)),
                ("target", n(target.as_u32())),
                ("unwind", unwind_of(unwind)),
            ]),
            TerminatorKind::Call { func, args, destination, target, unwind, fn_span, .. } => {
                self.n_calls += 1;
                let mut a = vec![];
                for x in args.iter() {
                    a.push(self.operand(owner, body, &x.node));
                }
                let fty = func.ty(&body.local_decls, tcx);
                let callee = match fty.kind() {
                    ty::FnDef(fd, ga) => self.fn_ref(owner, *fd, ga),
                    _ => Json::obj(vec![
                        ("path", s("<indirect>")),
                        ("fnty", s(self.ty_str(fty))),
                        ("op", self.operand(owner, body, func)),
                    ]),
                };
                let mut arg_tys = vec![];
                for x in args.iter() {
                    arg_tys.push(s(self.ty_str(x.node.ty(&body.local_decls, tcx))));
                }
                Json::obj(vec![
                    ("k", s("call")),
                    ("callee", callee),
                    ("args", Json::Arr(a)),
                    ("arg_tys", Json::Arr(arg_tys)),
                    ("dest", self.place(body, *destination)),
                    ("target", match target {
                        Some(t) => n(t.as_u32()),
                        None => Json::Null,
                    }),
                    ("unwind", unwind_of(unwind)),
                    ("fsp", self.span_json(*fn_span)),
                ])
            }
            TerminatorKind::Assert { cond, expected, target, unwind, msg } => Json::obj(vec![
                ("k", s("assert")),
                ("cond", self.operand(owner, body, cond)),
                ("expected", Json::Bool(*expected)),
                ("target", n(target.as_u32())),
                ("unwind", unwind_of(unwind)),
                ("msg", s(format!("{:?}", msg).chars().take(60).collect::<String>())),
            ]),
            TerminatorKind::FalseEdge { real_target, .. } => {
                Json::obj(vec![("k", s("goto")), ("target", n(real_target.as_u32()))])
            }
            TerminatorKind::FalseUnwind { real_target, .. } => {
                Json::obj(vec![("k", s("goto")), ("target", n(real_target.as_u32()))])
            }
            other => Json::obj(vec![("k", s("otherterm")), ("dbg", s(format!("{:?}", other)))]),
        };
        self.n_blocks += 1;
        let mut tf = vec![("stmts", Json::Arr(stmts)), ("term", t), ("tsp", sp)];
        if bb.is_cleanup {
            tf.push(("cleanup", Json::Bool(true)));
        }
        Json::obj(tf)
    }

    fn body(&mut self, owner: DefId, body: &Body<'tcx>) -> Vec<(&'static str, Json)> {
        let tcx = self.tcx;
        let mut locals = vec![];
        for (_l, d) in body.local_decls.iter_enumerated() {
            self.note_adt(d.ty);
            locals.push(Json::obj(vec![("ty", s(self.ty_str(d.ty)))]));
        }
        let mut dbg = vec![];
        for v in &body.var_debug_info {
            let val = match &v.value {
                mir::VarDebugInfoContents::Place(p) => self.place(body, *p),
                mir::VarDebugInfoContents::Const(c) => self.konst(owner, c),
            };
            dbg.push(Json::obj(vec![
                ("name", s(v.name.to_string())),
                ("val", val),
                ("arg", match v.argument_index {
                    Some(i) => n(i),
                    None => Json::Null,
                }),
            ]));
        }
        let mut blocks = vec![];
        for (_bb, data) in body.basic_blocks.iter_enumerated() {
            blocks.push(self.block(owner, body, data));
        }
        let _ = tcx;
        vec![
            ("arg_count", n(body.arg_count)),
            ("locals", Json::Arr(locals)),
            ("debug", Json::Arr(dbg)),
            ("blocks", Json::Arr(blocks)),
        ]
    }

    fn run(mut self) -> Json {
        let tcx = self.tcx;
        let mut bodies = vec![];
        let mut cells = vec![];
        for ldid in tcx.hir_body_owners() {
            let did = ldid.to_def_id();
            let dk = tcx.def_kind(did);
            let (kind, is_fn) = match dk {
                DefKind::Fn => ("fn", true),
                DefKind::AssocFn => ("method", true),
                DefKind::Closure => ("closure", true),
                DefKind::Const { .. } => ("const", false),
                DefKind::AssocConst { .. } => ("assoc_const", false),
                DefKind::Static { .. } => ("static", false),
                _ => continue,
            };
            if is_fn && tcx.is_constructor(did) {
                continue;
            }
            let sp = tcx.def_span(did);
            let (file, lo, _) = self.line(sp);
            let (_, _, hi) = self.line(tcx.hir_span_with_body(tcx.local_def_id_to_hir_id(ldid)));
            let derive = sp.from_expansion()
                && matches!(sp.ctxt().outer_expn_data().kind, rustc_span::ExpnKind::Macro(..));
            let mut f: Vec<(&'static str, Json)> = vec![
                ("path", s(self.path(did))),
                ("kind", s(kind)),
                ("file", s(file)),
                ("line", n(lo)),
                ("line_hi", n(hi)),
                ("derive", Json::Bool(derive)),
            ];
            let mut impl_trait = String::new();
            if let Some(impl_did) = tcx.impl_of_assoc(did) {
                if let Some(tr) = tcx.impl_opt_trait_ref(impl_did) {
                    impl_trait = self.path(tr.skip_binder().def_id);
                }
            }
            if derive && is_fn {
                // derive-generated code: keep only what the wire-schema analysis reads
                let name = if dk == DefKind::Closure { String::new() } else { tcx.item_name(did).to_string() };
                let keep = (impl_trait.ends_with("::Serialize") && name == "serialize")
                    || (impl_trait.ends_with("::Visitor") && name == "visit_str");
                if !keep {
                    continue;
                }
            }
            if dk == DefKind::Closure {
                f.push(("parent", s(self.path(tcx.typeck_root_def_id(did)))));
                f.push(("parent_direct", s(self.path(tcx.parent(did)))));
            }
            if let Some(impl_did) = tcx.impl_of_assoc(did) {
                let self_ty = tcx.type_of(impl_did).instantiate_identity().skip_norm_wip();
                f.push(("impl_self", s(self.ty_str(self_ty))));
                if let Some(tr) = tcx.impl_opt_trait_ref(impl_did) {
                    f.push(("impl_trait", s(self.path(tr.skip_binder().def_id))));
                }
            }
            if is_fn {
                let body = tcx.optimized_mir(did);
                let ret = body.local_decls[mir::RETURN_PLACE].ty;
                f.push(("ret_ty", s(self.ty_str(ret))));
                let bj = self.body(did, body);
                f.extend(bj);
                let mut proms = vec![];
                for pb in tcx.promoted_mir(did).iter() {
                    let pj = self.body(did, pb);
                    proms.push(Json::obj(pj));
                }
                f.push(("promoted", Json::Arr(proms)));
                self.n_bodies += 1;
            } else {
                let ty = tcx.type_of(did).instantiate_identity().skip_norm_wip();
                f.push(("ty", s(self.ty_str(ty))));
                self.note_adt(ty);
                let body = tcx.mir_for_ctfe(did);
                let bj = self.body(did, body);
                f.extend(bj);
                let mut proms = vec![];
                for pb in tcx.promoted_mir(did).iter() {
                    let pj = self.body(did, pb);
                    proms.push(Json::obj(pj));
                }
                f.push(("promoted", Json::Arr(proms)));
                cells.push(Json::obj(vec![
                    ("path", s(self.path(did))),
                    ("kind", s(kind)),
                    ("ty", s(self.ty_str(ty))),
                ]));
            }
            bodies.push(Json::obj(f));
        }
        let adts: Vec<(String, Json)> = self.adts.into_iter().collect();
        Json::obj(vec![
            ("crate", s(tcx.crate_name(LOCAL_CRATE).to_string())),
            ("rustc", s(option_env!("CFG_VERSION").unwrap_or("nightly").to_string())),
            (
                "counts",
                Json::obj(vec![
                    ("bodies", n(self.n_bodies)),
                    ("blocks", n(self.n_blocks)),
                    ("calls", n(self.n_calls)),
                ]),
            ),
            ("cells", Json::Arr(cells)),
            ("adts", Json::Obj(adts)),
            ("bodies", Json::Arr(bodies)),
        ])
    }
}
