// Minimal JSON value + serializer (no external crates available offline for a
// rustc_private binary, and none needed).
pub enum Json {
    Null,
    Bool(bool),
    Num(i128),
    Str(String),
    Arr(Vec<Json>),
    Obj(Vec<(String, Json)>),
}

impl Json {
    pub fn obj(v: Vec<(&'static str, Json)>) -> Json {
        Json::Obj(v.into_iter().map(|(k, v)| (k.to_string(), v)).collect())
    }

    pub fn to_string(&self) -> String {
        let mut out = String::new();
        self.write(&mut out);
        out
    }

    fn esc(s: &str, out: &mut String) {
        out.push('"');
        for c in s.chars() {
            match c {
                '"' => out.push_str("\\\""),
                '\\' => out.push_str("\\\\"),
                '\n' => out.push_str("\\n"),
                '\r' => out.push_str("\\r"),
                '\t' => out.push_str("\\t"),
                c if (c as u32) < 0x20 => out.push_str(&format!("\\u{:04x}", c as u32)),
                c => out.push(c),
            }
        }
        out.push('"');
    }

    fn write(&self, out: &mut String) {
        match self {
            Json::Null => out.push_str("null"),
            Json::Bool(b) => out.push_str(if *b { "true" } else { "false" }),
            Json::Num(n) => out.push_str(&n.to_string()),
            Json::Str(s) => Json::esc(s, out),
            Json::Arr(a) => {
                out.push('[');
                for (i, x) in a.iter().enumerate() {
                    if i > 0 {
                        out.push(',');
                    }
                    x.write(out);
                }
                out.push(']');
            }
            Json::Obj(o) => {
                out.push('{');
                for (i, (k, v)) in o.iter().enumerate() {
                    if i > 0 {
                        out.push(',');
                    }
                    Json::esc(k, out);
                    out.push(':');
                    v.write(out);
                }
                out.push('}');
            }
        }
    }
}
