"""C05 - peg-recovery fee bounded: structural clauses (DESIGN 6, C05)."""
from ..callgraph import explore, site_guarded, call_sites
from ..expr import show, find, DEFAULT
from .common import entry, variant_env, where
from .hub_common import receive_handlers, subtree, Roles
from .msgs import is_zero_const


def _anc(v):
    out = []
    while v.parent is not None:
        v = v.parent[0]
        out.append(v)
    return out


def fee_sites(prog, world, sem, roles):
    """[(label, visit, bb of the subtraction, nofee, fee(min call), result expr)] - discovered as
    subtractions whose subtrahend is min(x, y) with a factor Parameters.peg_recovery_fee"""
    ex = entry(prog, "hub")
    out = []
    vs_r, recv, handlers = receive_handlers(prog, sem)
    groups = [("Bond", explore(sem, ex, variant_env(prog, ex, "Bond")), None)]
    for (hooks, toks), hl in sorted(handlers.items()):
        for hv in hl:
            groups.append(("Receive/%s/%s" % ("+".join(hooks), "+".join(toks)), subtree(vs_r, hv), hv))
    for name, vs, hv in groups:
        for (vis, bb, e) in call_sites(sem, vs, lambda k: k in ("cosmwasm_std::Uint128::checked_sub", "std::ops::Sub::sub")):
            if len(e.args) != 2:
                continue
            fee = world.ident(e.args[1], expand_ws=False)
            # the fee may be written `amount - min(..)` inside the threshold test, or `amount - fee` with fee = min(..) below the
            # threshold and zero otherwise: the non-zero alternative is what counts, and its own site is what must be guarded
            alts = [a for a in (fee.args if fee.op == "phi" else (fee,)) if not is_zero_const(world.ident(a, expand_ws=False)) and a != DEFAULT]
            if len(alts) == 1:
                fee = world.ident(alts[0], expand_ws=False)
            if fee.op == "call" and fee.info == "std::cmp::Ord::min":
                # the fee rate is a *factor of the cap itself* (within a few nodes of min's operands), not something the operands merely
                # depend on through the data flow (the undelegation planner's min(target, delegated) depends on every earlier fee)
                def near(x, d):
                    if roles.role(x) == ("params", "peg_recovery_fee"):
                        return True
                    return d > 0 and x.op in ("bin", "call", "phi", "field") and any(near(y, d - 1) for y in x.args)
                has_fee = near(world.norm(fee, 0, False), 5)
                if has_fee:
                    gv, gbb = vis, bb
                    if fee.site is not None:
                        gvs = [v2 for v2 in vs if v2.body.path == fee.site[0] and (v2 is vis or any(a is vis for a in _anc(v2)))]
                        if gvs:
                            gv, gbb = gvs[0], fee.site[1]
                    out.append((name, vis, bb, world.ident(e.args[0], expand_ws=False), fee, e, vs, (gv, gbb)))
    return out


def run(prog, world, sem, rep):
    rep.rule("C05.a", "no fee at or above the threshold: every fee subtraction is reachable only through the true-edge of the strict comparison "
             "State.bsei_exchange_rate < Parameters.er_threshold (re-synchronised state)", 4)
    rep.rule("C05.b", "fee <= amount x fee rate: the subtrahend is min(a, b) with a = (the operation's no-fee amount) x Parameters.peg_recovery_fee", 4)
    rep.rule("C05.c", "fee never negative: the charged amount is only ever the no-fee amount or checked_sub(no-fee amount, fee) (unsigned), and that "
             "value is what the operation mints / records", 4)
    rep.rule("C05.d", "sibling agreement of the required-fee operand: minuend = bSei supply + pending bSei requests (+ minted no-fee amount on minting "
             "paths), subtrahend = bonded bSei pool (+ incoming coin value on minting paths); all four sites agree on the side", 4)

    roles = Roles(prog, sem)
    sites = fee_sites(prog, world, sem, roles)
    names = sorted(s[0] for s in sites)
    expected = ["Bond", "Receive/Convert/bsei", "Receive/Convert/stsei", "Receive/Unbond/bsei"]
    if names != expected:
        rep.ob("C05.a", "fee sites", False, "fee-charging sites found %s, expected %s (a new or missing fee path must be classified)" % (names, expected))
    for (name, vis, bb, nofee, fee, sub, vs, (gv, gbb)) in sites:
        # ---- C05.a
        def fp(f, resolve):
            if f[0] == "cmp" and f[1] == "Lt":
                return roles.role(resolve(f[2])) == ("state", "bsei_exchange_rate") and roles.role(resolve(f[3])) == ("params", "er_threshold")
            return False
        g, d = site_guarded(sem, gv, gbb, fp)
        rep.ob("C05.a", "%s: fee only below the threshold" % name, g, d, where(gv.body, gbb), key="C05.a | %s" % name)
        # ---- C05.b
        a, b = [world.ident(x, expand_ws=False) for x in fee.args]
        cap = None
        other = None
        for x, y in ((a, b), (b, a)):
            if x.op == "bin" and x.info == "Mul":
                rs = [roles.role(z) for z in x.args]
                if ("params", "peg_recovery_fee") in rs:
                    amt = [z for z, r in zip(x.args, rs) if r != ("params", "peg_recovery_fee")]
                    if len(amt) == 1:
                        cap, other = world.ident(amt[0], expand_ws=False), y
        okb = cap is not None and world.norm(cap, 0, False) == world.norm(nofee, 0, False)
        rep.ob("C05.b", "%s: fee capped by no-fee amount x peg_recovery_fee" % name, okb,
               "cap factor %s, no-fee amount %s" % (show(cap, 3) if cap is not None else None, show(nofee, 3)), where(vis.body, bb), key="C05.b | %s" % name)
        # ---- C05.c: what is the charged amount used for
        res = vis.be.ev_lp(vis.body.blocks[bb].term.target, 0, *vis.be.canon(vis.body.blocks[bb].term.dest)) if False else None
        users = []
        nf = world.norm(nofee, 0, False)
        subn = world.norm(sub, 0, False)

        def allowed(x):
            x = world.norm(x, 0, False)
            xs = x.args if x.op == "phi" else (x,)
            for y in xs:
                if y == nf or y == subn:
                    continue
                if y.op == "proj" and y.args[0] == subn:
                    continue
                # (the subtraction may sit in a pure helper such as `deduct_peg_fee(amount, rate, required)`: its own expression)
                from .C03 import through_pure
                z = world.norm(through_pure(world, y), 0, False)
                zs = z.args if z.op == "phi" else (z,)
                if z != y and all(q == nf or q == subn or (q.op == "proj" and q.args[0] == subn) for q in zs):
                    continue
                return False
            return True
        # consumers: Mint.amount (minting paths), the wait-list / batch amount (unbond), the value converted (bsei -> stsei)
        from ..callgraph import message_effects
        from .msgs import wasm_execute
        cons = []
        for (v2, b2, i2, m) in message_effects(sem, vs):
            r = wasm_execute(world, sem, m)
            if r and r[1] is not None and r[1].op == "adt" and r[1].info[1] == "Mint":
                amt = dict(zip(r[1].info[2], r[1].args))["amount"]
                cons.append(("Mint.amount", amt))
        okc = False
        det = ""
        if name in ("Bond", "Receive/Convert/stsei"):
            mint = [c for c in cons]
            okc = len(mint) >= 1
            for _, amt in mint:
                an = world.norm(vis.resolve(amt) if False else amt, 0, False)
                hits = find(an, lambda y: y == subn)
                alts = an.args if an.op == "phi" else (an,)
                relevant = [y for y in alts if find(y, lambda z: z == nf)]
                # every alternative that is built from this no-fee amount must be the amount itself or amount - fee
                bad = [y for y in relevant if not allowed(y)]
                if bad:
                    okc = False
                    det = "minted amount alternative %s" % show(bad[0], 4)
            if okc:
                det = "Mint.amount in {no-fee amount, no-fee amount - fee}"
        else:
            # burning paths: the charged amount flows into the batch total / conversion value: check the local definition
            dest = vis.body.blocks[bb].term.dest
            uses = find_uses_of_result(world, vis, nf, subn)
            okc = uses
            det = "amount_with_fee in {amount, amount - fee}" if uses else "the fee-reduced amount is combined with something else"
        rep.ob("C05.c", "%s: charged amount = no-fee amount minus fee (unsigned)" % name, okc, det, where(vis.body, bb), key="C05.c | %s" % name)
        # ---- C05.d
        okd = False
        det = "required-fee operand %s" % show(other, 4) if other is not None else "no required-fee operand"
        if other is not None:
            o = world.ident(other, expand_ws=False)
            if o.op == "call" and o.info.endswith("checked_sub"):
                mn, sb = o.args
            elif o.op == "bin" and o.info == "Sub":
                mn, sb = o.args
            else:
                mn = sb = None
            if mn is not None:
                minting = name in ("Bond", "Receive/Convert/stsei")
                mr = sorted(str(roles.role(z)) if roles.role(z) else ("nofee" if world.norm(z, 0, False) == nf else "?:" + show(z, 2)) for z in roles.flatten(mn))
                sr = sorted(str(roles.role(z)) if roles.role(z) else "value" for z in roles.flatten(sb))
                exp_m = sorted([str(("supply", "bsei")), str(("batch", "requested_bsei_with_fee"))] + (["nofee"] if minting else []))
                okd = mr == exp_m and str(("state", "total_bond_bsei_amount")) in sr and len(sr) == (2 if minting else 1)
                if minting and okd:
                    # the second subtrahend term is the incoming coin value: payment amount (bond) or stSei amount x stSei rate (convert)
                    extra = [z for z in roles.flatten(sb) if roles.role(z) != ("state", "total_bond_bsei_amount")][0]
                    en = world.norm(extra, 0, False)
                    if name == "Bond":
                        okd = roles.role(extra) == ("payment", "amount")
                    else:
                        okd = en.op == "bin" and en.info == "Mul" and {str(roles.role(z)) for z in en.args} == {str(("state", "stsei_exchange_rate")), str(("amount",))}
                det = "minuend %s subtrahend %s" % (mr, sr)
        rep.ob("C05.d", "%s: required-fee operand roles" % name, okd, det, where(vis.body, bb), key="C05.d | %s" % name)


def find_uses_of_result(world, vis, nf, subn):
    """burning paths: the local variable holding the charged amount has exactly the alternatives
    {amount, checked_sub(amount, fee)!ok}"""
    be = vis.be
    body = vis.body
    for name in body.names.values():
        pass
    for l, nm in body.names.items():
        # evaluate every named local at function exit and look for the phi {nofee, sub}
        for r in be.cfg.exits():
            try:
                v = be.ev_lp(r, 0, l, ())
            except Exception:
                continue
            n = world.norm(vis.resolve(v), 0, False)
            alts = n.args if n.op == "phi" else (n,)
            is_sub = [a == subn or (a.op == "proj" and a.args[0] == subn) for a in alts]
            if any(is_sub) and all(x or a == nf for x, a in zip(is_sub, alts)):
                return True
    return False
