"""Shared anchors: contracts, entry points, message enums (external contract of the code)."""
from ..expr import E

CONTRACTS = {
    "hub": "basset_sei_hub",
    "reward": "basset_sei_reward",
    "dispatcher": "basset_sei_rewards_dispatcher",
    "registry": "basset_sei_validators_registry",
    "bsei": "basset_sei_token_bsei",
    "stsei": "basset_sei_token_stsei",
}


def entry(prog, contract, name="execute"):
    return prog.body("%s::contract::%s" % (CONTRACTS[contract], name))


def msg_param(body):
    """(local, type) of the message parameter of an entry point (the last parameter)"""
    l = body.arg_count
    return l, body.local_tys[l]


def msg_enum(prog, body):
    l, ty = msg_param(body)
    base = ty.split("<")[0]
    return base, prog.adt(base)


def param_expr(body, l):
    return E("param", (), (body.path, l, body.name_of(l), body.local_tys[l]))


def variant_env(prog, body, variant, fields=None):
    """abstract env binding the message parameter to `variant`; `fields` optionally gives
    abstract values for named fields of the variant (others unknown)"""
    l, ty = msg_param(body)
    adt = ty.split("<")[0]
    payload = ()
    if fields:
        a = prog.adt(adt)
        for vv in a["variants"]:
            if vv["name"] == variant:
                payload = tuple(fields.get(f["name"]) for f in vv["fields"])
    return {param_expr(body, l): ("enum", variant, payload, adt)}


def alts(world, e):
    """identity alternatives of a value (phi flattened, wrappers stripped, Some(x) -> x)"""
    i = world.ident(e)
    xs = i.args if i.op == "phi" else (i,)
    out = []
    for x in xs:
        if x.op == "adt" and x.info[1] == "Some" and x.info[0].endswith("Option") and x.args:
            out.extend(alts(world, x.args[0]))
        else:
            out.append(x)
    return out


def stored(cell, *fields):
    return ("stored", cell, None, tuple(fields))


def where(body, bb=None, line=None):
    if line is None and bb is not None:
        line = body.blocks[bb].term.line
    return "%s:%s (%s)" % (body.file, line if line is not None else body.line, body.path)


def arm_handler(sem, visits):
    """the workspace function a message variant's arm delegates to (structural discovery:
    the callee of the delegating return site of the entry point); falls back to the entry"""
    root = [v for v in visits if v.parent is None][0]
    targets = set()
    for (bb, idx, kind, x) in sem.ret_sites(root.be):
        if kind == "call" and bb in root.blocks:
            b = sem.w.callee_body(x)
            if b is not None:
                targets.add(b.path)
    for v in visits:
        if v.parent is not None and v.parent[0] is root and v.body.path in targets and v.parent[1] in root.blocks:
            return v
    return root
